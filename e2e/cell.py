#!/usr/bin/env python3
"""One real-process scenario ("cell"): runs inside its own network namespace (unshare -n), starts a
fake HTTP tracker and fake BEP3 peers on loopback, runs the unmodified `rdest get` binary in a
scratch directory and judges what it left behind. Prints one JSON object on stdout.

usage: cell.py <scenario.json> <rdest-binary> <workdir>
"""
import asyncio, socket, hashlib, json, os, random, struct, subprocess, sys, time

PROTO = b"BitTorrent protocol"


def benc(v):
    if isinstance(v, int):
        return b"i%de" % v
    if isinstance(v, bytes):
        return b"%d:%s" % (len(v), v)
    if isinstance(v, str):
        return benc(v.encode())
    if isinstance(v, list):
        return b"l" + b"".join(benc(x) for x in v) + b"e"
    if isinstance(v, dict):
        return b"d" + b"".join(benc(k) + benc(v[k]) for k in sorted(v)) + b"e"
    raise TypeError(v)


def pid(p):
    """Peer id bytes: plain ASCII `id`, or arbitrary bytes given as `id_hex`."""
    return bytes.fromhex(p["id_hex"]) if p.get("id_hex") else p["id"].encode()


class World:
    def __init__(self, sc):
        self.sc = sc
        rnd = random.Random(sc["content_seed"])
        self.plen = sc["piece_length"]
        self.files = sc["files"]  # [[path, length], ...]
        total = sum(f[1] for f in self.files)
        self.data = rnd.randbytes(total)
        self.pieces = [self.data[i:i + self.plen] for i in range(0, total, self.plen)]
        self.hashes = [hashlib.sha1(p).digest() for p in self.pieces]
        info = {b"name": sc["name"].encode(), b"piece length": self.plen, b"pieces": b"".join(self.hashes)}
        if sc["single"]:
            info[b"length"] = total
        else:
            info[b"files"] = [{b"length": l, b"path": p.encode()} for p, l in self.files]
        self.info_hash = hashlib.sha1(benc(info)).digest()
        self.torrent = benc({b"announce": ("http://127.0.0.1:%d/announce" % sc["tracker_port"]).encode(), b"info": info})
        self.log = []
        self.last_activity = time.time()
        self.tracker_requests = 0
        self.handshakes_ok = 0
        self.handshakes_bad = 0
        self.bytes_moved = 0
        self.hostile = []
        self.closed_by_client = []
        self.conn_life = []
        self.good_replies = 0
        self.handshake_reply_s = []
        self.second_connections = 0
        self.dials = []  # every dial of the client that a fake peer accepted, stamped with the number of announce requests seen so far
        self.contacted = set()
        self.peer_last_sent = {}

    def note(self, *a):
        self.last_activity = time.time()
        if len(self.log) < 400:
            self.log.append("%.3f %s" % (time.time() - T0, " ".join(str(x) for x in a)))

    def expected_files(self):
        base = self.sc["name"] if not self.sc["single"] else ""
        out, off = {}, 0
        for p, l in self.files:
            out[os.path.join(base, p) if not self.sc["single"] else self.sc["name"]] = self.data[off:off + l]
            off += l
        return out


T0 = time.time()


async def tracker(w, reader, writer):
    try:
        req = await asyncio.wait_for(reader.readuntil(b"\r\n\r\n"), 10)
    except Exception:
        writer.close()
        return
    n = w.tracker_requests
    w.tracker_requests += 1
    line = req.split(b"\r\n")[0].decode("latin1")
    faults = w.sc["tracker_faults"]
    kind = faults[n] if n < len(faults) else "good"
    w.note("tracker request #%d -> %s" % (n, kind), line[:80])
    if kind == "close":
        writer.close()
        return
    if kind == "slow500":
        await asyncio.sleep(1.3)  # a failure that takes longer than the client's retry pause
        kind = "http500"
    if kind == "http500":
        writer.write(b"HTTP/1.1 500 Internal Server Error\r\nContent-Length: 0\r\nConnection: close\r\n\r\n")
    else:
        if kind == "garbage":
            body = b"<html>\x00\xff not bencode"
        elif kind == "failure":
            body = benc({b"failure reason": b"torrent not registered"})
        else:
            peers = [{b"ip": p.get("host", "127.0.0.1").encode(), b"peer id": pid(p), b"port": p["port"]} for p in w.sc["peers"] if not p["incoming"]]
            body = benc({b"interval": 1800, b"peers": peers})
            if "info_hash=" not in line or "peer_id=" not in line or "port=6881" not in line:
                w.note("BAD announce line", line)
        mode = w.sc.get("tracker_delivery", "whole")
        if kind == "good":
            w.good_replies += 1
        if mode == "whole":
            writer.write(b"HTTP/1.1 200 OK\r\nContent-Length: %d\r\nConnection: close\r\n\r\n" % len(body) + body)
        else:
            # the same reply in several TCP segments (Nagle off, a pause between writes)
            try:
                writer.get_extra_info("socket").setsockopt(socket.IPPROTO_TCP, socket.TCP_NODELAY, 1)
            except Exception:
                pass
            cuts = sorted(set([0, len(body)] + [max(1, min(len(body) - 1, c)) for c in (len(body) // 3, 2 * len(body) // 3, 7)])) if len(body) > 1 else [0, len(body)]
            parts = [body[a:b] for a, b in zip(cuts, cuts[1:])]
            try:
                if mode == "chunked":
                    writer.write(b"HTTP/1.1 200 OK\r\nTransfer-Encoding: chunked\r\nConnection: close\r\n\r\n")
                    await writer.drain()
                    for part in parts:
                        await asyncio.sleep(0.03)
                        writer.write(b"%x\r\n" % len(part) + part + b"\r\n")
                        await writer.drain()
                    writer.write(b"0\r\n\r\n")
                else:
                    writer.write(b"HTTP/1.1 200 OK\r\nContent-Length: %d\r\nConnection: close\r\n\r\n" % len(body))
                    await writer.drain()
                    for part in parts:
                        await asyncio.sleep(0.03)
                        writer.write(part)
                        await writer.drain()
            except Exception:
                pass
    try:
        await writer.drain()
    except Exception:
        pass
    writer.close()


async def read_msg(reader):
    ln = struct.unpack(">I", await reader.readexactly(4))[0]
    if ln == 0:
        return None, b""
    body = await reader.readexactly(ln)
    return body[0], body[1:]


async def send(w, writer, data, chunk):
    if chunk <= 0:
        writer.write(data)
    else:
        for i in range(0, len(data), chunk):
            writer.write(data[i:i + chunk])
            await writer.drain()
            await asyncio.sleep(0)
    await writer.drain()
    w.bytes_moved += len(data)
    w.last_activity = time.time()


def noise_frames(rnd, permille):
    """Well-formed frames a BEP3 client must skip: unknown ids (body below the frame limit) and keep-alives."""
    out = b""
    while permille and rnd.random() * 1000 < permille:
        k = rnd.random()
        if k < 0.3:
            out += bytes(4)
        else:
            body = rnd.randbytes(rnd.choice([0, 0, 1, 3, 12, 13, 200, 16393, 65535]))
            out += struct.pack(">IB", 1 + len(body), rnd.choice([9, 10, 20, 21, 42, 99, 128, 200, 254, 255])) + body
    return out


async def hostile(w, p, reader, writer, we_connect):
    """Valid handshake, a few legal messages, then a malformed frame (or a truncated one and EOF).
    Records whether and when the client closed the connection."""
    rnd = random.Random(p["seed"])
    rec = {"port": p["port"], "kind": p["kind"], "expect_close": p["expect_close"], "closed_after_s": None, "closed_early_at_step": None, "incoming": p["incoming"]}
    w.hostile.append(rec)
    my_hs = bytes([19]) + PROTO + bytes(8) + w.info_hash + pid(p)
    if p.get("bad_handshake") == "info_hash":
        k = rnd.randrange(20)
        ih = bytearray(w.info_hash)
        ih[k] ^= 1 << rnd.randrange(8)
        my_hs = bytes([19]) + PROTO + bytes(8) + bytes(ih) + pid(p)
    elif p.get("bad_handshake") == "peer_id":
        other = bytearray(pid(p))
        other[rnd.randrange(20)] ^= 1 << rnd.randrange(7)
        my_hs = bytes([19]) + PROTO + bytes(8) + w.info_hash + bytes(other)

    async def drain():
        try:
            while True:
                b = await reader.read(65536)
                if not b:
                    return
        except (ConnectionError, OSError):
            return
    try:
        if we_connect:
            await send(w, writer, my_hs, 0)
        await asyncio.wait_for(reader.readexactly(68), 30)
        if not we_connect:
            await send(w, writer, my_hs, 0)
        if p["kind"] == "silent":
            # says nothing more (or only keep-alives); notes the client's keep-alives and when it hangs up
            t_conn = time.time()
            rec["keepalives_from_client_at_s"] = []
            bf = bytes((len(w.pieces) + 7) // 8)
            await send(w, writer, struct.pack(">IB", 1 + len(bf), 5) + bf, 0)
            t_last = time.time()
            ka_every = p.get("keepalive_every_s")
            next_ka = t_last + ka_every if ka_every else None
            while True:
                left = t_conn + p.get("give_up_s", 380) - time.time()
                if left <= 0:
                    rec["waited_s"] = round(time.time() - t_last, 1)
                    break
                tmo = min(left, max(0.01, next_ka - time.time())) if next_ka else left
                try:
                    hdr = await asyncio.wait_for(reader.readexactly(4), tmo)
                except asyncio.TimeoutError:
                    if next_ka and time.time() >= next_ka:
                        await send(w, writer, bytes(4), 0)
                        next_ka += ka_every
                    continue
                except (asyncio.IncompleteReadError, ConnectionError, OSError):
                    rec["closed_after_s"] = round(time.time() - t_last, 1)
                    w.note("silent", p["port"], "closed by client after", rec["closed_after_s"])
                    break
                ln = struct.unpack(">I", hdr)[0]
                if ln == 0:
                    rec["keepalives_from_client_at_s"].append(round(time.time() - t_conn, 1))
                else:
                    await reader.readexactly(ln)
            return
        dr = asyncio.create_task(drain())
        for k, st in enumerate(p["script"]):
            if dr.done():
                rec["closed_early_at_step"] = k
                break
            try:
                await send(w, writer, bytes.fromhex(st["hex"]), st.get("chunk", 0))
            except (ConnectionError, OSError):
                rec["closed_early_at_step"] = k
                break
            if st.get("sleep_ms"):
                await asyncio.sleep(st["sleep_ms"] / 1000)
        t_last = time.time()
        if p.get("then_close"):
            writer.close()
            rec["closed_after_s"] = -1
            return
        try:
            await asyncio.wait_for(dr, p.get("close_within_s", 10))
            rec["closed_after_s"] = round(time.time() - t_last, 3)
            w.note("hostile", p["port"], p["kind"], "closed by client after", rec["closed_after_s"])
        except asyncio.TimeoutError:
            w.note("hostile", p["port"], p["kind"], "NOT closed by client")
            rec["closed_after_s"] = None
            rec["waited_s"] = round(time.time() - t_last, 3)
    except (asyncio.IncompleteReadError, ConnectionError, asyncio.TimeoutError, OSError) as e:
        rec["error"] = repr(e)
    finally:
        rec["done"] = True
        try:
            writer.close()
        except Exception:
            pass


async def seeder(w, p, reader, writer, we_connect):
    """Honest (or corrupting) seeder persona over real TCP."""
    if not we_connect:
        w.contacted.add(p["port"])
        if len(w.dials) < 400:
            w.dials.append({"port": p["port"], "tracker_requests": w.tracker_requests, "at_s": round(time.time() - T0, 3)})
    if p.get("kind") and p["kind"] != "visitor":
        return await hostile(w, p, reader, writer, we_connect)
    rnd = random.Random(p["seed"])
    noise = p.get("noise_permille", 0)
    life = {"port": p["port"], "t0": time.time(), "keepalives_at_s": []}
    w.conn_life.append(life)
    n = len(w.pieces)
    have = p["have"]
    chunk = p.get("chunk", 0)
    my_hs = bytes([19]) + PROTO + bytes(8) + w.info_hash + pid(p)
    try:
        if we_connect:
            if p.get("handshake_delay_ms"):
                await asyncio.sleep(p["handshake_delay_ms"] / 1000)
            await send(w, writer, my_hs, chunk)
        t_hs = time.time()
        hs = await asyncio.wait_for(reader.readexactly(68), 30)
        p["_admitted"] = True
        if we_connect:
            w.handshake_reply_s.append({"port": p["port"], "after_s": round(time.time() - t_hs, 2), "at_s": round(t_hs - T0, 2), "good_replies_then": w.good_replies})
        if p.get("kind") == "visitor":
            await send(w, writer, struct.pack(">IB", 1 + (n + 7) // 8, 5) + bytes((n + 7) // 8), 0)
            await asyncio.sleep(p.get("linger_ms", 100) / 1000)
            w.hostile.append({"port": p["port"], "kind": "visitor", "expect_close": False, "done": True})
            w.note("visitor", p["port"], "leaves")
            return
        if hs[1:20] == PROTO and hs[28:48] == w.info_hash:
            w.handshakes_ok += 1
        else:
            w.handshakes_bad += 1
            w.note("BAD handshake from client", hs[:20])
        if not we_connect:
            await send(w, writer, my_hs, chunk)
        bf = bytearray((n + 7) // 8)
        for i in range(n):
            if have[i]:
                bf[i // 8] |= 0x80 >> (i % 8)
        await send(w, writer, noise_frames(rnd, noise) + struct.pack(">IB", 1 + len(bf), 5) + bytes(bf) + noise_frames(rnd, noise), chunk)
        if p.get("unchoke_delay_ms", 0) >= 0:
            await asyncio.sleep(p.get("unchoke_delay_ms", 0) / 1000)
            await send(w, writer, noise_frames(rnd, noise) + struct.pack(">IB", 1, 1), chunk)
        served = 0
        choked_once = False
        # what the client sends is read (and time-stamped) as it arrives, also while this peer is
        # busy "thinking" about an answer
        inbox = asyncio.Queue()

        async def pump():
            try:
                while True:
                    m = await read_msg(reader)
                    await inbox.put((time.time(), m[0], m[1]))
            except Exception as ex:  # noqa
                await inbox.put((time.time(), "EOF", ex))
        pump_task = asyncio.create_task(pump())
        while True:
            t_arr, mid, body = await asyncio.wait_for(inbox.get(), max(60, p.get("latency_ms", 0) / 1000 * 3 + 200))
            if mid == "EOF":
                raise body
            w.last_activity = time.time()
            if mid is None:
                life["keepalives_at_s"].append(round(t_arr - life["t0"], 1))
                continue
            if mid == 6:
                idx, beg, ln = struct.unpack(">III", body)
                if idx >= n or not have[idx] or beg + ln > len(w.pieces[idx]):
                    continue
                if p.get("latency_ms", 0):
                    await asyncio.sleep(rnd.uniform(0, p["latency_ms"]) / 1000)
                blk = w.pieces[idx][beg:beg + ln]
                if p.get("corrupt_permille", 0) and rnd.random() * 1000 < p["corrupt_permille"] and blk:
                    k = rnd.randrange(len(blk))
                    blk = blk[:k] + bytes([blk[k] ^ 0x10]) + blk[k + 1:]
                    w.note("peer", p["port"], "corrupts block", idx, beg)
                label = beg
                if p.get("swap_labels") and ln == 16384 and beg in (0, 16384) and len(w.pieces[idx]) >= 32768:
                    # right bytes under the other block's offset: the two answers, taken in arrival
                    # order, still concatenate to the true piece, but not when placed by offset
                    label = 16384 - beg
                    w.note("peer", p["port"], "mislabels block", idx, beg, "as", label)
                msg = noise_frames(rnd, noise) + struct.pack(">IBII", 9 + len(blk), 7, idx, label) + blk
                d = p.get("disconnect_after_blocks")
                if d is not None and served >= d:
                    if p.get("mid_frame"):
                        await send(w, writer, msg[:5 + rnd.randrange(len(msg) - 5)], chunk)
                    w.note("peer", p["port"], "disconnects after", served, "blocks")
                    writer.close()
                    return
                await send(w, writer, msg, chunk)
                w.peer_last_sent[p["port"]] = time.time()
                served += 1
                c = p.get("choke_after_blocks")
                if c is not None and served >= c and not choked_once:
                    choked_once = True
                    await send(w, writer, struct.pack(">IB", 1, 0), chunk)
                    await asyncio.sleep(p.get("choke_ms", 200) / 1000)
                    await send(w, writer, struct.pack(">IB", 1, 1), chunk)
    except (asyncio.IncompleteReadError, ConnectionError, OSError) as e:
        # the client closed (or reset) this connection
        w.closed_by_client.append({"port": p["port"], "at_s": round(time.time() - T0, 2), "served_blocks": locals().get("served", 0), "owed_blocks": sum((len(w.pieces[i]) + 16383) // 16384 for i in range(n) if have[i]), "s_since_our_last_message": round(time.time() - w.peer_last_sent.get(p["port"], T0), 2), "how": type(e).__name__})
        w.note("peer", p["port"], "connection closed by the client")
    except asyncio.TimeoutError:
        pass
    finally:
        if "pump_task" in locals():
            pump_task.cancel()
        life["lived_s"] = round(time.time() - life["t0"], 1)
        try:
            writer.close()
        except Exception:
            pass


async def second_connection(w, p):
    """A listed peer that, while the client is connected to it, also connects to the client from
    its own listening port (so that both connections have the same remote address), shakes hands,
    stays a moment and closes that second connection."""
    for _ in range(200):
        if p["port"] in w.contacted:
            break
        await asyncio.sleep(0.05)
    else:
        return
    await asyncio.sleep(p.get("second_after_ms", 100) / 1000)
    try:
        sk = socket.socket(socket.AF_INET, socket.SOCK_STREAM)
        sk.setsockopt(socket.SOL_SOCKET, socket.SO_REUSEADDR, 1)
        sk.setsockopt(socket.SOL_SOCKET, socket.SO_REUSEPORT, 1)
        sk.bind(("127.0.0.1", p["port"]))
        sk.setblocking(False)
        await asyncio.get_running_loop().sock_connect(sk, ("127.0.0.1", 6881))
        reader, writer = await asyncio.open_connection(sock=sk)
    except OSError as e:
        w.note("second connection from own port failed:", repr(e))
        return
    w.note("peer", p["port"], "opened a second connection from its own port")
    w.second_connections += 1
    try:
        my_hs = bytes([19]) + PROTO + bytes(8) + w.info_hash + pid(p)
        writer.write(my_hs)
        await writer.drain()
        await asyncio.wait_for(reader.readexactly(68), 5)
        n = len(w.pieces)
        writer.write(struct.pack(">IB", 1 + (n + 7) // 8, 5) + bytes((n + 7) // 8))
        await writer.drain()
        await asyncio.sleep(p.get("second_linger_ms", 300) / 1000)
    except (asyncio.IncompleteReadError, ConnectionError, asyncio.TimeoutError, OSError):
        pass
    finally:
        try:
            writer.close()
        except Exception:
            pass
        w.note("peer", p["port"], "closed its second connection")


async def incoming_peer(w, p):
    await asyncio.sleep(p.get("connect_delay_ms", 300) / 1000)
    if p.get("retry_s"):
        # a peer that keeps trying to connect in until the client takes it
        t_end = time.time() + p.get("retry_for_s", 600)
        tries = 0
        while time.time() < t_end and not p.get("_admitted"):
            tries += 1
            try:
                reader, writer = await asyncio.open_connection("127.0.0.1", 6881)
                await seeder(w, dict(p, retry_s=None) if False else p, reader, writer, True)
            except OSError:
                pass
            if p.get("_admitted"):
                break
            await asyncio.sleep(p["retry_s"])
        w.note("retrying peer", p["port"], "admitted" if p.get("_admitted") else "never admitted", "after", tries, "attempts")
        return
    for _ in range(40):
        try:
            reader, writer = await asyncio.open_connection("127.0.0.1", 6881)
            break
        except OSError:
            await asyncio.sleep(0.1)
    else:
        w.note("incoming peer could not connect to 6881")
        return
    w.note("incoming peer", p["port"], "connected to the client")
    if p.get("kind") == "mute":
        # a port scanner / half-open client: connects, says nothing, keeps the connection open
        w.hostile.append({"port": p["port"], "kind": "mute", "expect_close": False, "done": True})
        t_end = time.time() + p.get("hold_s", 60)
        try:
            while time.time() < t_end:
                b = await asyncio.wait_for(reader.read(1 << 16), max(0.1, t_end - time.time()))
                if not b:
                    w.note("mute", p["port"], "closed by the client")
                    break
        except (asyncio.TimeoutError, ConnectionError, OSError):
            pass
        writer.close()
        return
    await seeder(w, p, reader, writer, True)


def cpu_ticks(pid):
    try:
        f = open("/proc/%d/stat" % pid).read().rsplit(")", 1)[1].split()
        return int(f[11]) + int(f[12])
    except Exception:
        return 0


async def main():
    sc = json.load(open(sys.argv[1]))
    binary, work = sys.argv[2], sys.argv[3]
    os.makedirs(work, exist_ok=True)
    subprocess.run(["ip", "link", "set", "lo", "up"], stdout=subprocess.DEVNULL, stderr=subprocess.DEVNULL)
    w = World(sc)
    rel = sc.get("torrent_rel", "t.torrent")
    cell = os.path.dirname(os.path.abspath(work))
    if rel.startswith("ABS:"):
        tpath = os.path.join(cell, rel[4:])
        targ = tpath
    else:
        tpath = os.path.normpath(os.path.join(os.path.abspath(work), rel))
        targ = rel
    os.makedirs(os.path.dirname(tpath), exist_ok=True)
    if not rel.startswith("ABS:"):
        # every directory the un-normalised path walks through has to exist
        acc = os.path.abspath(work)
        for comp in os.path.dirname(rel).split("/"):
            acc = os.path.join(acc, comp)
            os.makedirs(os.path.normpath(acc), exist_ok=True)
    open(tpath, "wb").write(w.torrent)
    servers = [await asyncio.start_server(lambda r, wr: tracker(w, r, wr), "127.0.0.1", sc["tracker_port"])]
    for p in sc["peers"]:
        if not p["incoming"] and not p.get("dead"):
            servers.append(await asyncio.start_server(lambda r, wr, p=p: seeder(w, p, r, wr, False), "127.0.0.1", p["port"], reuse_port=bool(p.get("second_connection_from_own_port"))))
    dirs_before = set()
    for root, dirs, _ in os.walk(cell):
        for dn in dirs:
            dirs_before.add(os.path.abspath(os.path.join(root, dn)))
    # a damaged piece file left from an earlier run (right name and length, wrong bytes)
    if sc.get("leftover_piece") is not None:
        i = sc["leftover_piece"] % len(w.pieces)
        open(os.path.join(work, w.hashes[i].hex().upper() + ".piece"), "wb").write(bytes(b ^ 0x5A for b in w.pieces[i]))
    out = open(os.path.join(work, "stdout.txt"), "wb")
    env = dict(os.environ)
    env.update(sc.get("env", {}))
    if sc.get("stdout_closed"):
        # stdout is a pipe whose reader is gone (`rdest get x | head`): messages are lost, the job is not
        pr, pw = os.pipe()
        os.close(pr)
        proc = await asyncio.create_subprocess_exec(binary, "get", targ, cwd=work, stdout=pw, stderr=out, env=env)
        os.close(pw)
    else:
        proc = await asyncio.create_subprocess_exec(binary, "get", targ, cwd=work, stdout=out, stderr=subprocess.STDOUT, env=env)
    tasks = [asyncio.create_task(incoming_peer(w, p)) for p in sc["peers"] if p["incoming"]]
    tasks += [asyncio.create_task(second_connection(w, p)) for p in sc["peers"] if p.get("second_connection_from_own_port")]
    expected = w.expected_files()
    verdict, detail = None, ""
    t_start = time.time()
    last_cpu, last_cpu_t = cpu_ticks(proc.pid), time.time()
    idle_since = None
    complete_since = None
    while True:
        await asyncio.sleep(0.05)
        now = time.time()
        if proc.returncode is not None:
            verdict, detail = "client-died", "exit status %s" % proc.returncode
            break
        # complete?
        ok = True
        for rel, data in expected.items():
            pth = os.path.join(work, rel)
            try:
                if os.path.getsize(pth) != len(data) or open(pth, "rb").read() != data:
                    ok = False
                    break
            except OSError:
                ok = False
                break
        if ok:
            complete_since = complete_since or now
            nh = sum(1 for p in sc["peers"] if p.get("kind"))
            ports = set(p["port"] for p in sc["peers"] if p.get("kind"))
            if ports <= set(h["port"] for h in w.hostile if h.get("done")) or now - complete_since > sc.get("wait_hostile_s", 14):
                verdict = "complete"
                break
            continue  # download done, waiting for the hostile connections' outcome
        # logical stall: nothing moved on any socket, no tracker request, and the client burnt no CPU
        if now - last_cpu_t >= 1.0:
            c = cpu_ticks(proc.pid)
            busy = c - last_cpu
            last_cpu, last_cpu_t = c, now
            quiet = now - w.last_activity
            if busy <= 5 and quiet >= 1.0:
                idle_since = idle_since or now
            else:
                idle_since = None
        if idle_since and now - idle_since >= sc.get("stall_s", 15):
            verdict, detail = "stalled", "no socket activity, no tracker request and < 50 ms CPU for %d s" % sc.get("stall_s", 15)
            break
        never = [p["port"] for p in sc["peers"] if not p["incoming"] and not p.get("dead") and p["port"] not in w.contacted]
        if w.good_replies >= 8 and never:
            verdict, detail = "listed-peer-never-contacted", "%d good tracker replies were delivered, the download is not complete, and the listed peer(s) %s (%s) were never dialled" % (w.good_replies, never, [p.get("host", "127.0.0.1") for p in sc["peers"] if p["port"] in never])
            break
        if now - t_start > sc.get("timeout_s", 90):
            verdict, detail = "timeout", "wall clock limit without idle evidence"
            break
    await asyncio.sleep(0.2)  # let a possible extractor finish writing siblings
    hwm = 0
    try:
        for l in open("/proc/%d/status" % proc.pid):
            if l.startswith("VmHWM:"):
                hwm = int(l.split()[1])
    except Exception:
        pass
    if proc.returncode is None:
        proc.kill()
        await proc.wait()
    for t in tasks:
        t.cancel()
    for s in servers:
        s.close()
    # judge the directory
    problems = []
    piece_files = [f for f in os.listdir(work) if f.endswith(".piece")]
    # how the client names its piece files is its own business: a stored piece is judged by content
    by_hash = {h: i for i, h in enumerate(w.hashes)}
    for f in piece_files:
        data = open(os.path.join(work, f), "rb").read()
        i = by_hash.get(hashlib.sha1(data).digest())
        if i is None or data != w.pieces[i]:
            problems.append("stored piece file %s (%d bytes) is not a verified piece of this torrent" % (f, len(data)))
    stdout = open(os.path.join(work, "stdout.txt"), "rb").read().decode("utf8", "replace")
    panics = [l for l in stdout.splitlines() if "panicked at" in l or "RUST_BACKTRACE" in l][:3]
    san = [l for l in stdout.splitlines() if "AddressSanitizer" in l or "ERROR: " in l and "Sanitizer" in l][:3]
    extra = []
    if verdict == "complete":
        listed = set(expected.keys())
        for root, _, files in os.walk(work):
            for f in files:
                rel = os.path.relpath(os.path.join(root, f), work)
                if rel in listed or rel.endswith(".piece") or rel in ("t.torrent", "stdout.txt") or os.path.abspath(os.path.join(root, f)) == os.path.abspath(tpath):
                    continue
                extra.append(rel)
    outside = []
    for root, dirs, _ in os.walk(cell):
        if os.path.abspath(root) == os.path.abspath(work) or os.path.abspath(root).startswith(os.path.abspath(work) + os.sep):
            continue
        for dn in dirs:
            pth = os.path.abspath(os.path.join(root, dn))
            if pth != os.path.abspath(work) and pth not in dirs_before and not pth.startswith(os.path.abspath(work) + os.sep):
                outside.append(os.path.relpath(pth, cell) + "/")
    for root, _, files in os.walk(cell):
        if os.path.abspath(root) == os.path.abspath(work) or os.path.abspath(root).startswith(os.path.abspath(work) + os.sep):
            continue
        for f in files:
            pth = os.path.join(root, f)
            if os.path.abspath(pth) == os.path.abspath(tpath) or f == "scenario.json":
                continue
            if f.endswith(".piece") or f.endswith(".tmp"):
                continue  # download artefacts, not extraction output
            outside.append(os.path.relpath(pth, cell))
    print(json.dumps({
        "outside_start_dir": outside[:5], "complete_at_s": round(complete_since - T0, 2) if complete_since else None,
        "verdict": verdict, "detail": detail, "elapsed_s": round(time.time() - t_start, 2),
        "piece_files": len(piece_files), "pieces": len(w.pieces), "piece_problems": problems[:3],
        "panics": panics, "sanitizer": san, "unexpected_files": extra[:3],
        "tracker_requests": w.tracker_requests, "handshakes_ok": w.handshakes_ok, "handshakes_bad": w.handshakes_bad,
        "bytes_moved": w.bytes_moved, "second_connections": w.second_connections, "dials": w.dials, "handshake_reply_s": w.handshake_reply_s[:8], "hostile": w.hostile, "closed_by_client": w.closed_by_client[:10], "conn_life": [dict(l, lived_s=l.get("lived_s", round(time.time() - l["t0"], 1)), t0=round(l["t0"] - T0, 2)) for l in w.conn_life[:10]], "peak_rss_kb": hwm, "log_tail": w.log[-25:], "stdout_tail": stdout[-600:],
    }))


asyncio.run(main())
