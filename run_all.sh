#!/bin/bash
# Runs every check of MANIFEST.json in the given tier (default quick) and prints one line each.
cd "$(dirname "$(readlink -f "$0")")"
tier=${1:-quick}
python3 run.py C01 --tier $tier >/dev/null 2>&1  # builds once
rc_all=0
for c in C01 C02 C03 C04 C05 C06 C07 C08 C09 C10 C11 C12 C13 C14 C15 C16 C17 C18 C19 C20; do
  s=$(date +%s)
  out=$(python3 run.py $c --tier $tier --no-build 2>&1); rc=$?
  e=$(date +%s)
  echo "$c rc=$rc $((e-s))s $(echo "$out" | grep -E '^(HELD|VIOLATION|ERROR)' | head -3 | tr '\n' ' ') $(echo "$out" | grep -c '^KNOWN-FINDING') known"
  [ $rc -ne 0 ] && rc_all=1
done
exit $rc_all
