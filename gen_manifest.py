#!/usr/bin/env python3
"""Regenerates MANIFEST.json from checks_meta.py (single source of truth for wording)."""
import json, subprocess
from checks_meta import CHECKS, NOT_APPLICABLE, HOOK_COMMITS
checks = []
for cid in sorted(CHECKS):
    m = CHECKS[cid]
    checks.append({
        "property_id": cid,
        "quick_cmd": "python3 run.py %s --tier quick" % cid,
        "thorough_cmd": "python3 run.py %s --tier thorough" % cid,
        "evidence_file": "/verif/evidence/%s.json" % cid,
        "replay_cmd_template": "python3 run.py %s --replay {path}" % cid,
        "engine": "vh",
        "level_claimed": {"category": m["level"], "text": m["level_text"], "design_ref": m.get("design_ref", "DESIGN.md section 3, " + cid)},
        "level_note": m["level_note"],
        "technique": m["technique"],
    })
na = list(NOT_APPLICABLE)
ids = [json.loads(l)["id"] for l in open("properties.jsonl") if l.strip()]
for i in ids:
    if i not in CHECKS and not any(x["property_id"] == i for x in na):
        na.append({"property_id": i, "reason": "not claimed yet: the check for this property is still under construction (see DESIGN.md for the planned oracle)"})
man = {
    "version": 1,
    "setup_cmd": "cd /verif/harness && CARGO_NET_OFFLINE=true cargo build --release --offline && cd /verif && python3 -c \"import engines,sys; sys.exit(0 if engines.build_binary(print) else 1)\"",
    "hooks": {
        "guard": "cargo feature `verif` of the rdest crate (off by default)",
        "enable": "the harness crate /verif/harness depends on rdest = { path = \"/repo\", features = [\"verif\"] }; the real-process layer builds /repo with the feature off",
        "baseline_off_cmd": "cd /repo && cargo test --workspace --no-fail-fast --offline",
        "source_commits": HOOK_COMMITS,
        "add_only": True,
    },
    "engines": [
        {"name": "vh", "path": "/verif/harness", "serves_properties": sorted(CHECKS), "kind_free_text": "Rust harness: workload generators, scripted peers over in-memory sockets on a paused tokio clock, reference models and trace monitors; run.py fans it out over 16 worker processes and merges what the monitors observed"},
        {"name": "e2e", "path": "/verif/engines.py + /verif/e2e/cell.py", "serves_properties": sorted(c for c in CHECKS if CHECKS[c].get("engines")), "kind_free_text": "real-process layer: the unmodified rdest binary in a network namespace per run against a Python asyncio fake tracker and fake peers; file-system and process monitors; thorough tier repeats a subset under an AddressSanitizer build"},
    ],
    "checks": checks,
    "not_applicable": na,
    "notes": "Technique family: runtime monitoring and sanitizers. Every verdict is 'held on the executions observed'. Known, recorded defects are listed in /verif/known_findings.json and reported as KNOWN-FINDING lines.",
}
json.dump(man, open("MANIFEST.json", "w"), indent=1)
print("MANIFEST.json: %d checks, %d not_applicable" % (len(checks), len(NOT_APPLICABLE)))
