//! Torrent builder used by every workload: content, piece hashes, the .torrent document and the
//! expected on-disk result, all computed by the harness (reference arithmetic).

use crate::benc::BV;
use crate::util::{hex_upper, sha1, Rng};
use rdest::Metainfo;
use std::path::PathBuf;

#[derive(Clone)]
pub struct Torrent {
    pub piece_len: usize,
    pub name: String,
    /// (path string as written in the metainfo, length)
    pub files: Vec<(String, usize)>,
    /// true: `length` key (single-file layout); false: `files` list
    pub single: bool,
    pub content: Vec<u8>,
    pub hashes: Vec<[u8; 20]>,
    pub bytes: Vec<u8>,
    pub info_span: (usize, usize),
    pub announce: String,
}

impl Torrent {
    pub fn build(
        piece_len: usize,
        name: &str,
        files: Vec<(String, usize)>,
        single: bool,
        content: Vec<u8>,
        announce: &str,
    ) -> Torrent {
        assert!(piece_len > 0);
        let total: usize = files.iter().map(|f| f.1).sum();
        assert_eq!(total, content.len());
        assert!(!single || files.len() == 1);
        let hashes: Vec<[u8; 20]> = content.chunks(piece_len).map(sha1).collect();
        let mut pieces = vec![];
        for h in &hashes {
            pieces.extend_from_slice(h);
        }
        let mut info: Vec<(Vec<u8>, BV)> = vec![];
        if single {
            info.push((b"length".to_vec(), BV::Int(total as i64)));
        } else {
            info.push((
                b"files".to_vec(),
                BV::List(
                    files
                        .iter()
                        .map(|(p, l)| {
                            BV::Dict(vec![
                                (b"length".to_vec(), BV::Int(*l as i64)),
                                (b"path".to_vec(), BV::s(p)),
                            ])
                        })
                        .collect(),
                ),
            ));
        }
        info.push((b"name".to_vec(), BV::s(name)));
        info.push((b"piece length".to_vec(), BV::Int(piece_len as i64)));
        info.push((b"pieces".to_vec(), BV::Str(pieces)));
        let info = BV::Dict(info);
        let info_bytes = info.to_bytes_canonical();
        let mut bytes = b"d8:announce".to_vec();
        BV::s(announce).encode_as_is(&mut bytes);
        bytes.extend_from_slice(b"4:info");
        let start = bytes.len();
        bytes.extend_from_slice(&info_bytes);
        let end = bytes.len();
        bytes.push(b'e');
        Torrent {
            piece_len,
            name: name.to_string(),
            files,
            single,
            content,
            hashes,
            bytes,
            info_span: (start, end),
            announce: announce.to_string(),
        }
    }

    pub fn n(&self) -> usize {
        self.hashes.len()
    }

    pub fn total(&self) -> usize {
        self.content.len()
    }

    pub fn piece(&self, i: usize) -> &[u8] {
        let s = i * self.piece_len;
        let e = (s + self.piece_len).min(self.content.len());
        &self.content[s..e]
    }

    pub fn piece_len_of(&self, i: usize) -> usize {
        self.piece(i).len()
    }

    pub fn info_hash(&self) -> [u8; 20] {
        sha1(&self.bytes[self.info_span.0..self.info_span.1])
    }

    pub fn piece_file_name(&self, i: usize) -> String {
        // the client's own naming convention for stored pieces (no property pins it down)
        rdest::verif::hash_to_string(&self.hashes[i]) + ".piece"
    }

    pub fn index_of_hash_name(&self, name: &str) -> Option<usize> {
        (0..self.n()).find(|i| self.piece_file_name(*i) == name)
    }

    pub fn metainfo(&self) -> Metainfo {
        Metainfo::from_bencode(&self.bytes).expect("harness-built torrent must parse")
    }

    /// Expected extraction result: (path relative to cwd, bytes), by reference arithmetic.
    pub fn expected_files(&self) -> Vec<(PathBuf, Vec<u8>)> {
        // BEP3: a torrent in the `files` layout goes into the directory named by the torrent,
        // however many files it lists
        let dir = if !self.single {
            PathBuf::from(&self.name)
        } else {
            PathBuf::new()
        };
        let mut off = 0;
        let mut out = vec![];
        for (p, l) in &self.files {
            out.push((dir.join(p), self.content[off..off + l].to_vec()));
            off += l;
        }
        out
    }

    /// Write `<HASH>.piece` files for the given pieces into `dir`.
    pub fn write_pieces(&self, dir: &std::path::Path, which: impl Iterator<Item = usize>) {
        for i in which {
            std::fs::write(dir.join(self.piece_file_name(i)), self.piece(i)).unwrap();
        }
    }
}

/// Content whose pieces all have distinct hashes (so that a file name identifies an index).
pub fn distinct_content(r: &mut Rng, total: usize, piece_len: usize) -> Vec<u8> {
    for _ in 0..50 {
        let c = r.bytes(total);
        let mut hs: Vec<[u8; 20]> = c.chunks(piece_len).map(sha1).collect();
        let n = hs.len();
        hs.sort();
        hs.dedup();
        if hs.len() == n {
            return c;
        }
    }
    // tiny pieces: fall back to whatever we got (callers with tiny pieces tolerate duplicates)
    r.bytes(total)
}

/// Split `total` into `k` file lengths, allowing zero-length and sub-piece files.
pub fn split_lengths(r: &mut Rng, total: usize, k: usize, piece_len: usize) -> Vec<usize> {
    let mut cuts: Vec<usize> = (0..k.saturating_sub(1))
        .map(|_| match r.below(5) {
            0 => (r.usize(total / piece_len.max(1) + 1) * piece_len).min(total), // on a boundary
            1 => 0,
            2 => total,
            _ => r.usize(total + 1),
        })
        .collect();
    cuts.sort();
    let mut out = vec![];
    let mut prev = 0;
    for c in cuts {
        out.push(c - prev);
        prev = c;
    }
    out.push(total - prev);
    out
}

/// Piece lengths biased to the interesting residues around the 16 KiB block size.
pub fn gen_piece_len(r: &mut Rng, small: bool) -> usize {
    if small {
        return *r.pick(&[8usize, 9, 16, 31, 64, 100, 257]);
    }
    match r.below(6) {
        0 => r.range(8, 64) as usize,
        1 => (16384 * r.range(1, 3) as i64 + r.range(0, 2) as i64 - 1) as usize,
        2 => 16384,
        3 => r.range(65, 5000) as usize,
        4 => r.range(16385, 60000) as usize,
        _ => r.range(1000, 40000) as usize,
    }
}

/// A consistent random geometry for the simulation (distinct piece hashes guaranteed).
pub fn gen_sim_torrent(r: &mut Rng, max_pieces: usize, small: bool) -> Torrent {
    let piece_len = gen_piece_len(r, small);
    let n = r.range(1, max_pieces as u64) as usize;
    let last = match r.below(4) {
        0 => piece_len,
        1 => 1,
        2 => piece_len - 1,
        _ => r.range(1, piece_len as u64) as usize,
    }
    .max(1);
    let total = (n - 1) * piece_len + last;
    let content = distinct_content(r, total, piece_len);
    let single = r.chance(1, 2);
    if single {
        Torrent::build(
            piece_len,
            "out.bin",
            vec![("out.bin".to_string(), total)],
            true,
            content,
            "http://sim.invalid/announce",
        )
    } else {
        let k = r.range(2, 5) as usize;
        let lens = split_lengths(r, total, k, piece_len);
        let files = lens
            .iter()
            .enumerate()
            .map(|(i, l)| {
                let p = if r.chance(1, 3) {
                    format!("sub{}/f{}.dat", i % 2, i)
                } else {
                    format!("f{}.dat", i)
                };
                (p, *l)
            })
            .collect();
        Torrent::build(
            piece_len,
            "outdir",
            files,
            false,
            content,
            "http://sim.invalid/announce",
        )
    }
}
