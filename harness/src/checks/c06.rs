//! C06 — peer stream decoding is total, segmentation-independent, prompt and bounded, and a
//! malformed/oversized/truncated stream terminates the connection.
//! O1..O4 drive the real `Connection::recv_frame` over an in-memory socket; O5 drives the real
//! `PeerHandler` + manager in the simulation.

use crate::checks::c07::frame_bytes;
use crate::sim::peers::scripted;
use crate::sim::{disk_never, run_sim, Entry, EvKind, PeerSpec, SimCfg};
use crate::torrent::gen_sim_torrent;
use crate::util::{hash64, hex, panic_site, panics, Ctx, Report, Rng, Tier};
use crate::wire::Msg;
use rdest::verif::{self as hooks, Connection, VerifEvent, MAX_FRAME_SIZE};
use serde_json::json;
use std::cell::RefCell;
use std::rc::Rc;
use std::sync::{Arc, Mutex};
use tokio::io::AsyncWriteExt;
use tokio::time::Duration;

#[derive(Debug, Clone, PartialEq)]
pub enum State {
    Pending,
    CleanEof,
    Error(String),
    Panic(String),
}

impl State {
    fn class(&self) -> &'static str {
        match self { State::Pending => "pending", State::CleanEof => "clean-eof", State::Error(_) => "error", State::Panic(_) => "panic" }
    }
}

#[derive(Debug, Clone)]
pub struct Run {
    /// frames delivered (re-serialised) after each written chunk
    pub after_chunk: Vec<usize>,
    pub frames: Vec<Vec<u8>>,
    pub before_eof: State,
    pub after_eof: State,
    pub max_wait_buffered: usize,
}

struct Shared {
    frames: Vec<Vec<u8>>,
    state: State,
}

/// Drive the real decoder over `stream` cut at `cuts` (sorted offsets where a new write starts).
pub fn drive(rt: &tokio::runtime::Runtime, waits: &Rc<RefCell<Vec<usize>>>, stream: &[u8], cuts: &[usize]) -> Run {
    waits.borrow_mut().clear();
    let _ = panics::take();
    let shared = Arc::new(Mutex::new(Shared { frames: vec![], state: State::Pending }));
    let mut run = rt.block_on(async {
        let (client_end, mut peer_end) = tokio::io::duplex(4 << 20);
        let mut conn = Connection::new("10.9.9.9:1".to_string());
        conn.with_mem(client_end);
        let sh = shared.clone();
        let reader = tokio::spawn(async move {
            loop {
                match conn.recv_frame().await {
                    Ok(Some(f)) => {
                        let mut g = sh.lock().unwrap();
                        g.frames.push(frame_bytes(&f));
                        if g.frames.len() > 200_000 {
                            g.state = State::Error("LIVELOCK: more than 200000 frames delivered".into());
                            break;
                        }
                    }
                    Ok(None) => { sh.lock().unwrap().state = State::CleanEof; break; }
                    Err(e) => { sh.lock().unwrap().state = State::Error(e.to_string()); break; }
                }
            }
        });
        let mut after_chunk = vec![];
        let mut prev = 0;
        let mut bounds: Vec<usize> = cuts.to_vec();
        bounds.push(stream.len());
        for b in bounds {
            if b > prev {
                let _ = peer_end.write_all(&stream[prev..b]).await;
                prev = b;
            }
            // quiescence barrier: with the paused clock this sleep ends only when the reader is blocked
            tokio::time::sleep(Duration::from_millis(1)).await;
            after_chunk.push(shared.lock().unwrap().frames.len());
        }
        let mut before_eof = shared.lock().unwrap().state.clone();
        drop(peer_end);
        tokio::time::sleep(Duration::from_millis(1)).await;
        let joined = tokio::time::timeout(Duration::from_secs(1), reader).await;
        let mut after_eof = shared.lock().unwrap().state.clone();
        match joined {
            Ok(Err(e)) if e.is_panic() => {
                let p = panics::take().join(" | ");
                before_eof = State::Panic(p.clone());
                after_eof = State::Panic(p);
            }
            Err(_) => after_eof = State::Error("reader still pending after EOF".into()),
            _ => (),
        }
        Run { after_chunk, frames: vec![], before_eof, after_eof, max_wait_buffered: 0 }
    });
    run.frames = shared.lock().unwrap().frames.clone();
    run.max_wait_buffered = waits.borrow().iter().copied().max().unwrap_or(0);
    run
}

/// One element of a generated stream.
#[derive(Clone, Debug)]
pub enum Item {
    Known(Msg),
    /// unknown id: skipped by the decoder
    Unknown(u8, usize),
}

pub fn gen_items(r: &mut Rng, max: usize) -> Vec<Item> {
    let n = r.range(1, max as u64) as usize;
    let mut v = vec![];
    for k in 0..n {
        let it = match r.below(14) {
            0 => Item::Known(Msg::KeepAlive),
            1 => Item::Known(Msg::Choke),
            2 => Item::Known(Msg::Unchoke),
            3 => Item::Known(Msg::Interested),
            4 => Item::Known(Msg::NotInterested),
            5 => Item::Known(Msg::Have(r.next() as u32)),
            6 => { let n = r.usize(20); Item::Known(Msg::Bitfield(r.bytes(n))) }
            7 => Item::Known(Msg::Request(r.next() as u32, r.next() as u32, r.next() as u32)),
            8 => { let n = match r.below(5) { 0 => 0, 1 => 16384, 2 => 65527, _ => r.usize(300) }; Item::Known(Msg::Piece(r.next() as u32, r.next() as u32, r.bytes(n))) }
            9 => Item::Known(Msg::Cancel(r.next() as u32, r.next() as u32, r.next() as u32)),
            10 if k == 0 || r.chance(1, 4) => { let mut ih = [0u8; 20]; ih.copy_from_slice(&r.bytes(20)); let mut id = [0u8; 20]; id.copy_from_slice(&r.bytes(20)); Item::Known(Msg::handshake(&ih, &id)) }
            _ => {
                // ids 0..=8 are known; 0x54 ('T') is how the decoder sniffs a handshake
                let id = loop { let x = r.range(9, 255) as u8; if x != 0x54 { break x; } };
                let n = match r.below(6) { 0 => 0, 1 => 1, 2 => 65535, 3 => r.usize(70000).min(65535), _ => r.usize(40) };
                Item::Unknown(id, n)
            }
        };
        v.push(it);
    }
    v
}

pub fn encode_items(items: &[Item], r: &mut Rng) -> (Vec<u8>, Vec<(usize, Option<Vec<u8>>)>) {
    // returns the stream and, per item, (end offset, Some(bytes) if it must be delivered)
    let mut s = vec![];
    let mut marks = vec![];
    for it in items {
        match it {
            Item::Known(m) => { let b = m.encode(); s.extend_from_slice(&b); marks.push((s.len(), Some(b))); }
            Item::Unknown(id, n) => { s.extend_from_slice(&Msg::Unknown(*id, r.bytes(*n)).encode()); marks.push((s.len(), None)); }
        }
    }
    (s, marks)
}

fn cuttings(r: &mut Rng, stream: &[u8], marks: &[usize], exhaustive_upto: usize, random_n: usize) -> (Vec<Vec<usize>>, bool) {
    let n = stream.len();
    let mut out: Vec<Vec<usize>> = vec![];
    if n <= 1 { return (vec![vec![]], true); }
    if n <= exhaustive_upto {
        for mask in 0u32..(1u32 << (n - 1)) {
            out.push((1..n).filter(|i| mask & (1 << (i - 1)) != 0).collect());
        }
        return (out, true);
    }
    out.push(vec![]); // all at once
    out.push((1..n.min(3000)).collect()); // byte by byte (prefix), rest at once
    // adversarial families
    out.push(marks.iter().copied().filter(|m| *m < n).collect()); // exactly at message boundaries
    let mut starts = vec![0];
    starts.extend(marks.iter().copied());
    out.push(starts.iter().map(|s| s + 4).filter(|c| *c < n).collect()); // right after the length prefix
    out.push(starts.iter().map(|s| s + 5).filter(|c| *c < n).collect()); // right after the id byte
    out.push(starts.iter().flat_map(|s| [s + 1, s + 5, s + 6]).filter(|c| *c < n).collect());
    out.push(marks.iter().map(|m| m.saturating_sub(1)).filter(|c| *c > 0 && *c < n).collect()); // one byte short of each boundary
    for _ in 0..random_n {
        let k = r.range(1, 12) as usize;
        let mut c: Vec<usize> = (0..k).map(|_| r.range(1, n as u64 - 1) as usize).collect();
        c.sort();
        c.dedup();
        out.push(c);
    }
    for c in out.iter_mut() { c.sort(); c.dedup(); }
    (out, false)
}

pub fn run(ctx: &Ctx) -> Report {
    let mut rep = Report::new();
    rep.need("pairs_checked", 5_000);
    rep.need("known_streams_checked", 200);
    if ctx.want("decoder") {
        decoder_part(ctx, &mut rep);
    }
    if ctx.want("handler") {
        handler_part(ctx, &mut rep);
    }
    rep
}

fn decoder_part(ctx: &Ctx, rep: &mut Report) {
    let rt = tokio::runtime::Builder::new_current_thread().enable_time().start_paused(true).build().unwrap();
    let waits: Rc<RefCell<Vec<usize>>> = Rc::new(RefCell::new(vec![]));
    let w2 = waits.clone();
    hooks::set_sink(Some(Box::new(move |ev| {
        if let VerifEvent::RecvWait { buffered, .. } = ev { w2.borrow_mut().push(buffered); }
    })));
    let mut r = ctx.rng("c06");
    let (ex_upto, rand_cuts) = match ctx.tier { Tier::Quick => (9usize, 6usize), Tier::Thorough => (12, 40) };
    let n_streams = ctx.count(12_000, 120_000);
    let bound = 4 + MAX_FRAME_SIZE;
    for sn in 0..n_streams {
        // ---- choose a stream ---------------------------------------------------------------
        let kind = r.below(10);
        let short = r.chance(1, 3);
        let (stream, marks, known): (Vec<u8>, Vec<(usize, Option<Vec<u8>>)>, bool) = match kind {
            0..=4 => {
                let items = if short {
                    // tiny streams for the exhaustive cuttings
                    let mut it = gen_items(&mut r, 2);
                    for i in it.iter_mut() { match i { Item::Known(Msg::Piece(a, b, _)) => *i = Item::Known(Msg::Have(*a ^ *b)), Item::Known(Msg::Handshake { .. }) => *i = Item::Known(Msg::Choke), Item::Known(Msg::Bitfield(_)) => *i = Item::Known(Msg::Bitfield(vec![0xA5])), Item::Unknown(id, _) => *i = Item::Unknown(*id, 1), _ => () } }
                    it
                } else { gen_items(&mut r, 8) };
                let (s, m) = encode_items(&items, &mut r);
                (s, m, true)
            }
            5 | 6 => {
                // single-field mutation of a valid sequence
                let items = gen_items(&mut r, if short { 2 } else { 5 });
                let (mut s, m) = encode_items(&items, &mut r);
                let starts: Vec<usize> = std::iter::once(0).chain(m.iter().map(|x| x.0)).take(m.len()).collect();
                let st = *r.pick(&starts);
                if st + 5 <= s.len() {
                    match r.below(6) {
                        0 => { let l = u32::from_be_bytes([s[st], s[st + 1], s[st + 2], s[st + 3]]); s[st..st + 4].copy_from_slice(&l.wrapping_add(1).to_be_bytes()); }
                        1 => { let l = u32::from_be_bytes([s[st], s[st + 1], s[st + 2], s[st + 3]]); s[st..st + 4].copy_from_slice(&l.wrapping_sub(1).to_be_bytes()); }
                        2 => s[st + 4] = r.below(10) as u8,
                        3 => s[st..st + 4].copy_from_slice(&(r.range(65537, u32::MAX as u64) as u32).to_be_bytes()),
                        4 => s[st..st + 4].copy_from_slice(&65537u32.to_be_bytes()),
                        _ => { let p = r.usize(s.len()); s[p] = r.below(256) as u8; }
                    }
                }
                if r.chance(1, 3) { let cut = r.usize(s.len() + 1); s.truncate(cut); }
                (s, vec![], false)
            }
            7 => { let n = if short { r.range(1, 12) as usize } else { r.usize(200) }; (r.bytes(n), vec![], false) }
            8 => {
                // fixed-size id with a wrong length / piece shorter than its header, followed by a lot of data
                let id = r.below(9) as u8;
                let len: u32 = match id { 0..=3 => *r.pick(&[2u32, 3, 100]), 4 => *r.pick(&[1u32, 4, 6, 9]), 6 | 8 => *r.pick(&[1u32, 12, 14]), 7 => r.range(1, 8) as u32, _ => 1 };
                let mut s = len.to_be_bytes().to_vec();
                s.push(id);
                let extra = if short { r.usize(6) } else { *r.pick(&[0usize, 10, 70_000, 300_000]) };
                s.extend_from_slice(&vec![0u8; extra]);
                (s, vec![], false)
            }
            _ => {
                // oversized frame header followed by a lot of data
                let len = r.range(MAX_FRAME_SIZE as u64 + 1, 1 << 31) as u32;
                let mut s = len.to_be_bytes().to_vec();
                s.push(r.below(9) as u8);
                s.extend_from_slice(&vec![7u8; if short { 4 } else { 200_000 }]);
                (s, vec![], false)
            }
        };
        // truncate known streams sometimes (EOF inside a message)
        let mut stream = stream;
        let mut truncated = false;
        if known && r.chance(1, 4) && stream.len() > 1 {
            let cut = r.range(1, stream.len() as u64 - 1) as usize;
            stream.truncate(cut);
            truncated = !marks.iter().any(|m| m.0 == cut);
        }
        let mark_offsets: Vec<usize> = marks.iter().map(|m| m.0).collect();
        let (cuts, exhaustive) = cuttings(&mut r, &stream, &mark_offsets, ex_upto, rand_cuts);
        if exhaustive { rep.count("streams_with_all_cuttings", 1); }
        rep.distinct(&stream);
        let witness = |cut: &Vec<usize>| json!({"stream_hex": hex(&stream[..stream.len().min(120)]), "stream_len": stream.len(), "cuts": cut.iter().take(40).collect::<Vec<_>>(), "generator": kind});
        let base = drive(&rt, &waits, &stream, &[]);
        let mut ok = true;
        for (ci, cut) in cuts.iter().enumerate() {
            rep.evaluations += 1;
            let run = if ci == 0 && cut.is_empty() { base.clone() } else { drive(&rt, &waits, &stream, cut) };
            // O1 totality
            if let State::Panic(p) = &run.after_eof {
                rep.violation(&format!("C06:panic:{}", panic_site(p)), p.clone(), witness(cut));
                ok = false;
                break;
            }
            // O4 boundedness
            rep.max("retained_bytes_while_waiting", run.max_wait_buffered as u64);
            if run.max_wait_buffered > bound {
                rep.violation("C06:unbounded-buffering", format!("decoder waits for more bytes while retaining {} bytes (> one maximum frame = {})", run.max_wait_buffered, bound), witness(cut));
                ok = false;
                break;
            }
            // O2 segmentation independence (against "all at once")
            if run.frames != base.frames || run.before_eof.class() != base.before_eof.class() || run.after_eof.class() != base.after_eof.class() {
                rep.violation("C06:segmentation-dependent", format!("cut {:?}: {} frames, {} / {}; all-at-once: {} frames, {} / {}", cut.iter().take(10).collect::<Vec<_>>(), run.frames.len(), run.before_eof.class(), run.after_eof.class(), base.frames.len(), base.before_eof.class(), base.after_eof.class()), witness(cut));
                ok = false;
                break;
            }
            // O3 promptness + skipping of unknown ids (streams with a known message list)
            if known {
                let mut bounds: Vec<usize> = cut.clone();
                bounds.push(stream.len());
                let mut bad = None;
                for (k, b) in bounds.iter().enumerate() {
                    let want = marks.iter().filter(|m| m.0 <= *b && m.1.is_some()).count();
                    if run.after_chunk[k] != want { bad = Some((k, *b, want, run.after_chunk[k])); break; }
                }
                if let Some((k, b, want, got)) = bad {
                    let sig = if got < want { "C06:complete-message-not-delivered" } else { "C06:extra-frame" };
                    rep.violation(sig, format!("after write #{} ({} bytes received) {} messages are complete but {} were delivered", k, b, want, got), witness(cut));
                    ok = false;
                    break;
                }
                let want_frames: Vec<&Vec<u8>> = marks.iter().filter(|m| m.0 <= stream.len()).filter_map(|m| m.1.as_ref()).collect();
                if run.frames.iter().collect::<Vec<_>>() != want_frames {
                    rep.violation("C06:wrong-frames", "delivered frames differ from the messages sent", witness(cut));
                    ok = false;
                    break;
                }
                let want_end = if truncated { "error" } else { "clean-eof" };
                if run.before_eof.class() != "pending" || run.after_eof.class() != want_end {
                    rep.violation("C06:wrong-terminal-state", format!("valid stream ended {} / {} (expected pending / {})", run.before_eof.class(), run.after_eof.class(), want_end), witness(cut));
                    ok = false;
                    break;
                }
            }
            rep.count("pairs_checked", 1);
        }
        if ok {
            if known { rep.count("known_streams_checked", 1); }
            rep.count(&format!("generator_{}", match kind { 0..=4 => "valid+unknown", 5 | 6 => "mutated", 7 => "garbage", 8 => "wrong-length", _ => "oversize" }), 1);
            rep.count(&format!("terminal_{}", base.after_eof.class()), 1);
            if sn % 300 == 0 { rep.sample(json!({"stream_hex": hex(&stream[..stream.len().min(60)]), "stream_len": stream.len(), "cuttings": cuts.len(), "all_cuttings": exhaustive, "frames": base.frames.len(), "terminal": base.after_eof.class()})); }
        }
    }
    hooks::set_sink(None);
}

/// O5: malformed length / oversized frame / EOF inside a frame must end the connection at once
/// (KillReq without waiting for the 360 s keep-alive timeout).
fn handler_part(ctx: &Ctx, rep: &mut Report) {
    rep.need("handler_terminations_checked", 20);
    let mut r = ctx.rng("c06-handler");
    let n = ctx.count(480, 3_000);
    for k in 0..n {
        let seed = ctx.scenario_seed(r.next());
        let mut sr = Rng::new(seed);
        let torrent = Rc::new(gen_sim_torrent(&mut sr, 4, true));
        let ih = torrent.info_hash();
        let id = crate::checks::c02::peer_id(1);
        let addr = crate::checks::c02::addr(1);
        let incoming = sr.chance(1, 2);
        let mut pre: Vec<u8> = Msg::handshake(&ih, &id).encode();
        pre.extend_from_slice(&Msg::Bitfield(crate::wire::bitfield_bytes(&vec![false; torrent.n()])).encode());
        let (name, bad, eof): (&str, Vec<u8>, bool) = match sr.below(7) {
            0 => ("choke-with-length-2", vec![0, 0, 0, 2, 0, 0], false),
            1 => ("have-with-length-6", vec![0, 0, 0, 6, 4, 0, 0, 0, 0, 0], false),
            2 => ("piece-shorter-than-header", vec![0, 0, 0, 5, 7, 0, 0, 0, 0], false),
            3 => ("oversized-frame", { let mut v = 70_000u32.to_be_bytes().to_vec(); v.push(7); v.extend_from_slice(&[0u8; 64]); v }, false),
            4 => ("eof-inside-frame", vec![0, 0, 0, 13, 6, 0, 0], true),
            5 => ("request-with-length-12", vec![0, 0, 0, 12, 6, 0, 0, 0, 0, 0, 0, 0, 0, 0, 0, 0], false),
            _ => ("bad-protocol-string-after-handshake", { let mut v = vec![19u8]; v.extend_from_slice(b"BitTorrent protocoX"); v.extend_from_slice(&[0u8; 48]); v }, false),
        };
        let delay = sr.range(0, 3000);
        let script = vec![(0u64, pre), (delay, bad.clone())];
        let chunk = *sr.pick(&[0usize, 1, 3]);
        let spec = PeerSpec {
            addr: addr.clone(),
            id,
            entry: if incoming { Entry::Incoming { at_ms: 10 } } else { Entry::Dialled { from_announce: 0 } },
            make: Box::new(move |nth| if nth == 1 { Some(scripted(script.clone(), if eof { 0 } else { 400_000 }, eof)) } else { None }),
            chunk,
            pipe: 1 << 20,
        };
        let cfg = SimCfg { torrent, peers: vec![spec], tracker: vec![], failpoints: None, max_virtual_ms: 400_000, stop_on_extract: false, linger_ms: 0, disk_on: disk_never, seed, pre: None, tracker_fn: None, driver: Some(Box::new(|log, _ctl| Box::pin(async move {
            // end the scenario once the manager saw a KillReq
            loop {
                tokio::time::sleep(Duration::from_millis(500)).await;
                if log.0.borrow().events.iter().any(|e| matches!(&e.kind, EvKind::Mgr { kind, .. } if *kind == "KillReq")) { break; }
            }
        }))) };
        rep.evaluations += 1;
        if std::env::var("VH_DEBUG").is_ok() { eprintln!("c06 handler case {} incoming={} chunk={} delay={} seed={}", name, incoming, chunk, delay, seed); }
        let o = run_sim(cfg, &ctx.scratch, 120);
        if o.watchdog { rep.inconclusive("watchdog"); continue; }
        let sent_at = o.events.iter().filter(|e| e.addr == addr && matches!(e.kind, EvKind::PeerSent { msg: None, .. })).nth(1).map(|e| e.ms);
        let closed_at = if eof { o.events.iter().find(|e| e.addr == addr && matches!(e.kind, EvKind::PeerClosed)).map(|e| e.ms) } else { sent_at };
        let kill = o.mgr().find(|(e, kind, _)| *kind == "KillReq" && e.addr == addr).map(|(e, _, _)| (e.ms, match &e.kind { EvKind::Mgr { text, .. } => text.clone(), _ => String::new() }));
        let w = json!({"case": name, "incoming": incoming, "chunk": chunk, "malformed_sent_at_ms": closed_at, "kill": format!("{:?}", kill), "trace_tail": o.trace(12)});
        rep.distinct(&hash64(&(name, incoming, chunk)));
        if let Some(p) = o.panics.first() {
            rep.violation(&format!("C06:panic:{}", panic_site(p)), p.clone(), w);
            continue;
        }
        match (closed_at, kill) {
            (Some(t), Some((tk, _))) if tk <= t + 1_000 => {
                rep.count("handler_terminations_checked", 1);
                rep.set("handler_cases", name);
                if k % 40 == 0 { rep.sample(w); }
            }
            (Some(t), Some((tk, reason))) => rep.violation("C06:malformed-stream-stalls-connection", format!("{}: connection ended only {} ms after the malformed data ({})", name, tk - t, reason), w),
            (Some(_), None) => rep.violation("C06:malformed-stream-stalls-connection", format!("{}: connection never ended", name), w),
            (None, _) => rep.inconclusive("malformed data was never sent (connection ended before)"),
        }
    }
}
