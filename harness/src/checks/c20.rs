//! C20 — silent peers are dropped, live ones are kept, keep-alives are sent. All on virtual time
//! (tokio paused clock): scripted peers with message arrival times on a grid around the 120 s
//! ticks and at random, silence at the start / in the middle / at the end.

use crate::checks::c02::{addr, peer_id};
use crate::checks::c12::check_invariants;
use crate::sim::peers::{scripted, seeder, Disc, SeederCfg};
use crate::sim::{disk_never, fmt_ev, run_sim, Entry, Ev, EvKind, Outcome, PeerSpec, SimCfg};
use crate::torrent::gen_sim_torrent;
use crate::util::{hash64, panic_site, Ctx, Report, Rng};
use crate::wire::{bitfield_bytes, Msg};
use serde_json::{json, Value};
use std::collections::HashMap;
use std::rc::Rc;

const TICK: u64 = 120_000;

#[derive(Clone, Debug)]
pub struct Plan {
    pub addr: String,
    pub incoming: bool,
    pub connect_ms: u64,
    pub handshake: bool,
    /// (absolute virtual ms relative to connection start, message)
    pub msgs: Vec<(u64, Msg)>,
    pub kind: &'static str,
    /// arrival period for "live" personas (ms), 0 otherwise
    pub period: u64,
}

fn real_msg(r: &mut Rng, n: usize) -> Msg {
    match r.below(9) {
        0 => Msg::Choke,
        1 => Msg::Unchoke,
        2 => Msg::Interested,
        3 => Msg::Have(r.below(n as u64) as u32),
        4 => Msg::Bitfield(bitfield_bytes(&vec![false; n])),
        5 => Msg::Request(0, 0, 1),
        6 => Msg::Piece(0, 0, vec![1, 2, 3]),
        7 => Msg::Cancel(0, 0, 1),
        _ => Msg::Interested,
    }
}

pub fn gen_plan(r: &mut Rng, k: usize, n: usize, horizon: u64) -> Plan {
    let incoming = r.chance(1, 2);
    let connect_ms = if incoming { r.range(0, 5000) } else { 0 };
    let mut msgs: Vec<(u64, Msg)> = vec![];
    let kind: &'static str;
    let mut period = 0;
    let mut handshake = true;
    match r.below(7) {
        0 => { kind = "silent-from-start"; handshake = r.chance(1, 2); }
        1 => {
            kind = "keepalive-only";
            let p = *r.pick(&[1_000u64, 30_000, 60_000, 119_000, 120_000, 121_000]);
            let mut t = r.range(0, p);
            while t < horizon { msgs.push((t, Msg::KeepAlive)); t += p; }
        }
        2 => {
            // live: some real message at least once per 120 s interval
            kind = "live-periodic";
            period = *r.pick(&[1_000u64, 40_000, 60_000, 100_000, 119_000, 119_999, 120_000]);
            let mut t = r.range(0, period.min(119_000));
            while t < horizon { msgs.push((t, real_msg(r, n))); if r.chance(1, 3) { msgs.push((t + r.range(1, 500), Msg::KeepAlive)); } t += period; }
        }
        3 => {
            // live on the tick grid: k*120 s + {-1, 0, +1} ms relative to the handler's own timer
            kind = "live-on-tick-grid";
            period = TICK;
            let off = *r.pick(&[-1i64, 0, 1]);
            let mut k2 = 1u64;
            while k2 * TICK < horizon + TICK { msgs.push((((k2 * TICK) as i64 + off) as u64, real_msg(r, n))); k2 += 1; }
        }
        4 => {
            // real traffic for a while, then silence (keep-alives at most)
            kind = "silent-at-the-end";
            let stop = r.range(1_000, 400_000);
            let mut t = r.range(0, 20_000);
            while t < stop { msgs.push((t, real_msg(r, n))); t += r.range(500, 110_000); }
            if r.chance(1, 2) { let mut t2 = stop + r.range(1, 60_000); while t2 < horizon { msgs.push((t2, Msg::KeepAlive)); t2 += r.range(10_000, 130_000); } }
        }
        5 => {
            // real traffic, a long silent gap in the middle that must kill it
            kind = "silent-gap-in-the-middle";
            let mut t = r.range(0, 20_000);
            let gap_at = r.range(20_000, 200_000);
            while t < gap_at { msgs.push((t, real_msg(r, n))); t += r.range(500, 100_000); }
            let resume = t + 400_000;
            msgs.push((resume, real_msg(r, n)));
        }
        _ => {
            // random arrivals: whatever happens, only the two stated implications are judged
            kind = "random";
            let mut t = r.range(0, 50_000);
            while t < horizon { msgs.push((t, if r.chance(1, 3) { Msg::KeepAlive } else { real_msg(r, n) })); t += match r.below(4) { 0 => r.range(1, 1000), 1 => r.range(100_000, 125_000), 2 => r.range(200_000, 380_000), _ => r.range(1000, 100_000) }; }
        }
    }
    msgs.sort_by_key(|m| m.0);
    Plan { addr: addr(k), incoming, connect_ms, handshake, msgs, kind, period }
}

pub struct Finding { pub sig: String, pub what: String, pub at_seq: u64 }

/// Judge one scripted connection.
pub fn check_conn(o: &Outcome, p: &Plan, stats: &mut HashMap<&'static str, u64>) -> Option<Finding> {
    let a = &p.addr;
    let evs: Vec<&Ev> = o.events.iter().filter(|e| &e.addr == a).collect();
    // t0: start of the connection task = the manager event that spawned it (incoming) or the
    // client's own handshake write (outgoing; written at the very start of the task)
    let t0 = if p.incoming {
        match evs.iter().find(|e| matches!(&e.kind, EvKind::Mgr { kind, .. } if *kind == "Incoming")) { Some(e) => e.ms, None => return None }
    } else {
        match evs.iter().find(|e| matches!(&e.kind, EvKind::Send { msg: Msg::Handshake { .. }, .. })) { Some(e) => e.ms, None => return None }
    };
    // admitted?
    if !o.mgr().any(|(_, _, s)| s.peers.iter().any(|x| &x.addr == a)) { *stats.entry("not_admitted").or_default() += 1; return None; }
    let kill = evs.iter().find_map(|e| match &e.kind { EvKind::Mgr { kind, text, after, .. } if *kind == "KillReq" => Some((e.ms, e.seq, text.clone(), after.clone())), _ => None });
    // the connection ends when the client closes the socket; the manager may learn about it a
    // little later (it can be busy joining a tracker task)
    let saw_close = evs.iter().find(|e| matches!(e.kind, EvKind::PeerSawClose)).map(|e| e.ms);
    let end = match (saw_close, kill.as_ref().map(|k| k.0)) { (Some(a), Some(b)) => a.min(b), (Some(a), None) => a, (None, Some(b)) => b, (None, None) => o.end_ms };
    // real (non keep-alive, known) messages the peer actually wrote, with their times
    let arrivals: Vec<u64> = evs.iter().filter_map(|e| match &e.kind { EvKind::PeerSent { msg: Some(m), .. } if !matches!(m, Msg::KeepAlive) => Some(e.ms), _ => None }).collect();
    let timeout_kill = kill.as_ref().map(|k| k.2.to_lowercase().contains("keep alive")).unwrap_or(false);

    // (P2) a connection delivering a real message at least once per interval is never closed for inactivity
    if p.period > 0 && p.period <= TICK {
        *stats.entry("live_connections_judged").or_default() += 1;
        if timeout_kill {
            let (ms, seq, _, _) = kill.as_ref().unwrap();
            let before: Vec<&u64> = arrivals.iter().filter(|t| **t <= *ms).collect();
            let _ = end;
            return Some(Finding { sig: "C20:live-connection-closed-for-inactivity".into(), what: format!("{} sends a real message every {} ms (last ones at {:?}) but was closed with a keep-alive timeout at t={} ms (task started at {})", a, p.period, before.iter().rev().take(3).collect::<Vec<_>>(), ms, t0), at_seq: *seq });
        }
    }
    // (P1) nothing but keep-alives after the last real message at m (m = task start if none) => closed
    // within three intervals, for inactivity, and forgotten
    let silent_from = match arrivals.iter().filter(|t| **t <= end).last() { Some(m) => *m, None => t0 };
    let next_real = arrivals.iter().find(|t| **t > silent_from).copied().unwrap_or(u64::MAX);
    if next_real > silent_from + 3 * TICK + 1_000 {
        // the peer really stays silent for more than three intervals after `silent_from`
        if o.end_ms > silent_from + 3 * TICK + 1_000 || kill.is_some() {
            *stats.entry("silent_connections_judged").or_default() += 1;
            match &kill {
                None => return Some(Finding { sig: "C20:silent-connection-not-closed".into(), what: format!("{}: last real message at t={} ms, still connected at t={} ms", a, silent_from, o.end_ms), at_seq: u64::MAX }),
                Some((ms, seq, text, after)) => {
                    if end > silent_from + 3 * TICK {
                        return Some(Finding { sig: "C20:silent-connection-closed-too-late".into(), what: format!("{}: last real message at t={} ms, closed at t={} ms (> 360 s later; manager informed at {} ms; reason {})", a, silent_from, end, ms, text), at_seq: *seq });
                    }
                    if *ms > end + 10_000 {
                        return Some(Finding { sig: "C20:peer-state-released-late".into(), what: format!("{}: connection closed at t={} ms but the manager dropped its state only at t={} ms", a, end, ms), at_seq: *seq });
                    }
                    if after.peers.iter().any(|x| &x.addr == a) {
                        return Some(Finding { sig: "C20:peer-state-not-released".into(), what: format!("{} still in the manager's table after being dropped", a), at_seq: *seq });
                    }
                    if timeout_kill { *stats.entry("keepalive_timeouts_seen").or_default() += 1; }
                }
            }
        }
    }
    // (P3) the client writes one KeepAlive at every 120 s tick of this connection while it is open.
    // A frame may follow its tick by up to 10 s (the connection task can be waiting for the manager
    // at that moment; nothing in the system takes longer); whether the tick on which the connection
    // is closed still produces a frame is left open, as is a tick inside the last 10 s.
    let sent: Vec<u64> = evs.iter().filter_map(|e| match &e.kind { EvKind::Send { msg: Msg::KeepAlive, .. } => Some(e.ms), _ => None }).collect();
    let mut expected = vec![];
    let mut k = 1;
    while t0 + k * TICK < end { expected.push(t0 + k * TICK); k += 1; }
    *stats.entry("keepalive_frames_checked").or_default() += sent.len() as u64;
    let tick_of = |x: u64| -> Option<u64> { if x < t0 + TICK { return None; } let k = (x - t0) / TICK; if x <= t0 + k * TICK + 10_000 { Some(k) } else { None } };
    let ticks: Vec<Option<u64>> = sent.iter().map(|x| tick_of(*x)).collect();
    let mut ok = ticks.iter().all(|t| t.is_some()) && ticks.windows(2).all(|w| w[0] < w[1]);
    for (i, t) in expected.iter().enumerate() {
        let must = *t + 10_000 <= end;
        if must && !ticks.contains(&Some(i as u64 + 1)) { ok = false; }
    }
    if !ok {
        return Some(Finding { sig: "C20:keepalive-emission".into(), what: format!("{}: task started at t={} ms, open until t={} ms; KeepAlive frames written at {:?}, expected at {:?}", a, t0, end, sent, expected), at_seq: kill.as_ref().map(|k| k.1).unwrap_or(u64::MAX) });
    }
    None
}

pub struct Scenario { pub cfg: SimCfg, pub desc: Value, pub plans: Vec<Plan> }

pub fn gen_scenario(r: &mut Rng, seed: u64) -> Scenario {
    let torrent = Rc::new(gen_sim_torrent(r, 12, true));
    let n = torrent.n();
    let horizon = r.range(500_000, 1_000_000);
    let ih = torrent.info_hash();
    let mut peers = vec![];
    let mut plans = vec![];
    let mut pdesc = vec![];
    let nconn = r.range(1, 3) as usize;
    for k in 0..nconn {
        let p = gen_plan(r, k, n, horizon);
        let mut script: Vec<(u64, Vec<u8>)> = vec![];
        let mut first = vec![];
        if p.handshake {
            first = Msg::handshake(&ih, &peer_id(k)).encode();
            first.extend_from_slice(&Msg::Bitfield(bitfield_bytes(&vec![false; n])).encode());
        }
        script.push((0, first));
        // times in the plan are relative to the connection task's start
        let mut prev = 0;
        for (t, m) in &p.msgs { script.push((t.saturating_sub(prev), m.encode())); prev = (*t).max(prev); }
        pdesc.push(json!({"addr": p.addr, "kind": p.kind, "incoming": p.incoming, "handshake": p.handshake, "connect_ms": p.connect_ms, "messages": p.msgs.len(), "first_times_ms": p.msgs.iter().take(6).map(|m| m.0).collect::<Vec<_>>() }));
        let sc = script.clone();
        peers.push(PeerSpec { addr: p.addr.clone(), id: peer_id(k), entry: if p.incoming { Entry::Incoming { at_ms: p.connect_ms } } else { Entry::Dialled { from_announce: 0 } }, make: Box::new(move |nth| if nth > 1 { None } else { Some(scripted_structured(sc.clone())) }), chunk: 0, pipe: 1 << 20 });
        plans.push(p);
    }
    // sometimes a seeder that goes silent in the middle of a download (reserved piece must be released)
    if r.chance(1, 3) {
        let k = nconn;
        let mut s = SeederCfg::honest(peer_id(k), vec![true; n]);
        s.unchoke_after_ms = Some(0);
        s.disc = None;
        s.idle_close_ms = 10_000_000;
        s.silent_after_blocks = Some(r.range(0, 4));
        let s2 = s.clone();
        pdesc.push(json!({"addr": addr(k), "kind": "seeder-going-silent-mid-download", "silent_after_blocks": s.silent_after_blocks}));
        peers.push(PeerSpec { addr: addr(k), id: peer_id(k), entry: Entry::Dialled { from_announce: 0 }, make: Box::new(move |nth| if nth > 1 { None } else { Some(seeder(s2.clone())) }), chunk: 0, pipe: 1 << 20 });
        // ... while another, slow but live, seeder keeps completing pieces (in end game mode
        // possibly the very piece requested from the silent one): none of that is traffic *from*
        // the silent peer
        if r.chance(1, 2) {
            let k = nconn + 1;
            let mut f = SeederCfg::honest(peer_id(k), vec![true; n]);
            f.unchoke_after_ms = Some(0);
            f.idle_close_ms = 10_000_000;
            let lo = r.range(5_000, 60_000);
            f.latency_ms = (lo, lo + r.range(1, 50_000));
            let f2 = f.clone();
            pdesc.push(json!({"addr": addr(k), "kind": "slow-live-seeder", "block_latency_ms": [f.latency_ms.0, f.latency_ms.1]}));
            peers.push(PeerSpec { addr: addr(k), id: peer_id(k), entry: Entry::Dialled { from_announce: 0 }, make: Box::new(move |nth| if nth > 1 { None } else { Some(seeder(f2.clone())) }), chunk: 0, pipe: 1 << 20 });
        }
    }
    let desc = json!({"seed": seed, "pieces": n, "horizon_ms": horizon, "connections": pdesc});
    let _ = &mut peers;
    Scenario { cfg: SimCfg { torrent, peers, tracker: vec![], failpoints: None, max_virtual_ms: horizon, stop_on_extract: false, linger_ms: 0, disk_on: disk_never, seed, pre: None, tracker_fn: None, driver: None }, desc, plans }
}


/// Sends Interested, asks for `nreq` blocks once unchoked and then neither reads nor writes any more:
/// the client's answers pile up in a small pipe and its writes cannot complete.
pub fn stalled_reader(id: [u8; 20], nreq: usize) -> crate::sim::Behaviour {
    Box::new(move |mut io: crate::sim::PeerIo| Box::pin(async move {
        let t = io.torrent.clone();
        if !io.send(&Msg::handshake(&t.info_hash(), &id)).await { return; }
        if !io.send(&Msg::Bitfield(bitfield_bytes(&vec![false; t.n()]))).await { return; }
        if !io.send(&Msg::Interested).await { return; }
        let mut owned: Vec<usize> = vec![];
        let deadline = io.log.now_ms() + 120_000;
        let mut unchoked = false;
        while io.log.now_ms() < deadline && !(unchoked && !owned.is_empty()) {
            match io.recv_within(deadline - io.log.now_ms()).await {
                Ok(Some(Msg::Unchoke)) => unchoked = true,
                Ok(Some(Msg::Choke)) => unchoked = false,
                Ok(Some(Msg::Bitfield(b))) => owned = crate::wire::bitfield_bits(&b, t.n()).iter().enumerate().filter(|x| *x.1).map(|x| x.0).collect(),
                Ok(Some(Msg::Have(i))) => owned.push(i as usize),
                Ok(Some(_)) => (),
                Ok(None) => return,
                Err(()) => break,
            }
        }
        if !unchoked || owned.is_empty() { io.close(); return; }
        let mut k = 0;
        'outer: loop {
            for i in &owned {
                for (b, l) in crate::wire::tiling(t.piece_len_of(*i)) {
                    if k >= nreq { break 'outer; }
                    if !io.send(&Msg::Request(*i as u32, b, l)).await { return; }
                    k += 1;
                }
            }
        }
        io.log.note(&io.addr, format!("stalled reader: {} requests sent, from now on neither reads nor writes", k));
        // hold the socket open without touching it
        tokio::time::sleep(std::time::Duration::from_secs(100_000)).await;
        drop(io);
    }))
}

/// Family: a downloader that stops reading after asking for more data than its socket buffers hold.
pub fn gen_stalled_reader(r: &mut Rng, seed: u64) -> Scenario {
    let torrent = Rc::new(crate::torrent::gen_sim_torrent(r, 6, false));
    let n = torrent.n();
    let horizon = 900_000;
    let mut s = SeederCfg::honest(peer_id(0), vec![true; n]);
    s.unchoke_after_ms = Some(0);
    s.idle_close_ms = 10_000_000;
    s.chatter_ms = Some(60_000);
    let s2 = s.clone();
    let mut peers = vec![PeerSpec { addr: addr(0), id: peer_id(0), entry: Entry::Dialled { from_announce: 0 }, make: Box::new(move |nth| if nth > 1 { None } else { Some(seeder(s2.clone())) }), chunk: 0, pipe: 1 << 20 }];
    let nreq = r.range(8, 64) as usize;
    let pipe = *r.pick(&[1024usize, 4096, 16384, 40000]);
    let at = r.range(2_000, 20_000);
    peers.push(PeerSpec { addr: addr(1), id: peer_id(1), entry: Entry::Incoming { at_ms: at }, make: Box::new(move |nth| if nth > 1 { None } else { Some(stalled_reader(peer_id(1), nreq)) }), chunk: 0, pipe });
    let desc = json!({"seed": seed, "family": "downloader-that-stops-reading", "pieces": n, "piece_length": torrent.piece_len, "horizon_ms": horizon, "connections": [{"addr": addr(1), "kind": "stalled-reader", "connects_at_ms": at, "requests": nreq, "pipe_bytes": pipe}]});
    Scenario { cfg: SimCfg { torrent, peers, tracker: vec![], failpoints: None, max_virtual_ms: horizon, stop_on_extract: false, linger_ms: 0, disk_on: disk_never, seed, pre: None, tracker_fn: None, driver: None }, desc, plans: vec![] }
}

/// Like sim::peers::scripted, but the messages are logged structurally (the bytes are whole
/// messages), so that the oracle sees their kinds.
pub fn scripted_structured(script: Vec<(u64, Vec<u8>)>) -> crate::sim::Behaviour {
    use crate::wire::{take_msg, Take};
    Box::new(move |mut io: crate::sim::PeerIo| Box::pin(async move {
        let mut first = true;
        for (delay, bytes) in script {
            let until = io.log.now_ms() + delay;
            loop {
                let now = io.log.now_ms();
                if now >= until || io.eof { break; }
                let _ = io.recv_within(until - now).await;
            }
            if io.eof { return; }
            // split into messages for the log
            let mut rest = &bytes[..];
            let mut hs = first && rest.first() == Some(&19);
            first = false;
            while !rest.is_empty() {
                match take_msg(rest, hs) {
                    Take::Msg(m, n) => { if !io.send(&m).await { return; } rest = &rest[n..]; hs = false; }
                    _ => { let _ = io.send_raw(rest).await; break; }
                }
            }
        }
        loop { if io.recv().await.is_none() { return; } }
    }))
}

pub fn run(ctx: &Ctx) -> Report {
    let mut rep = Report::new();
    rep.need("silent_connections_judged", 100);
    rep.need("live_connections_judged", 100);
    rep.need("keepalive_frames_checked", 1000);
    let mut r = ctx.rng("c20");
    let n = ctx.count(3_000, 60_000);
    for k in 0..n {
        let seed = ctx.scenario_seed(r.next());
        let mut sr = Rng::new(seed);
        let stalled_family = sr.chance(1, 12);
        let sc = if stalled_family { gen_stalled_reader(&mut sr, seed) } else { gen_scenario(&mut sr, seed) };
        let desc = sc.desc.clone();
        rep.evaluations += 1;
        let o = run_sim(sc.cfg, &ctx.scratch, 120);
        if o.watchdog { rep.inconclusive(format!("watchdog (scenario seed {})", seed)); continue; }
        rep.distinct(&hash64(&desc["connections"].to_string()));
        if let Some(p) = o.panics.first() { rep.inconclusive(format!("a task panicked ({}): {}", panic_site(p), p)); continue; }
        let mut stats = HashMap::new();
        let mut found: Option<(String, Finding)> = None;
        for p in &sc.plans {
            rep.set("connection_kinds", p.kind);
            if let Some(f) = check_conn(&o, p, &mut stats) { found = Some((p.addr.clone(), f)); break; }
        }
        // the seeder that went silent: dropped within 360 s of its last message and its reservation released
        if found.is_none() {
            if let Some(inv) = check_invariants(&o) {
                if inv.sig.contains("stale-reservation") { found = Some((String::new(), Finding { sig: "C20:reservation-not-released".into(), what: inv.what, at_seq: inv.at_seq })); }
            }
            let sa = addr(sc.plans.len());
            let last_from_seeder = o.events.iter().filter(|e| e.addr == sa && matches!(e.kind, EvKind::PeerSent { .. })).map(|e| e.ms).last();
            if let Some(m) = last_from_seeder {
                // closed = the peer saw the client close its socket (the manager may be told a little later)
                let kill = o.events.iter().find(|e| e.addr == sa && matches!(e.kind, EvKind::PeerSawClose)).map(|e| e.ms).or_else(|| o.mgr().find(|(e, kind, _)| *kind == "KillReq" && e.addr == sa).map(|(e, _, _)| e.ms));
                if o.end_ms > m + 3 * TICK + 1_000 {
                    stats.insert("silent_seeders_judged", 1);
                    match kill {
                        Some(t) if t <= m + 3 * TICK => (),
                        other => found = Some((sa.clone(), Finding { sig: "C20:silent-connection-not-closed".into(), what: format!("seeder {} fell silent at t={} ms in the middle of a download; dropped at {:?}", sa, m, other), at_seq: u64::MAX })),
                    }
                }
            }
        }
        if found.is_none() && stalled_family {
            let sa = addr(1);
            let asked = o.events.iter().any(|e| e.addr == sa && matches!(&e.kind, EvKind::Note { text } if text.starts_with("stalled reader")));
            let last = o.events.iter().filter(|e| e.addr == sa && matches!(e.kind, EvKind::PeerSent { .. })).map(|e| e.ms).last();
            if let (true, Some(m)) = (asked, last) {
                if o.end_ms > m + 3 * TICK + 1_000 {
                    stats.insert("stalled_readers_judged", 1);
                    let kill = o.mgr().find(|(e, kind, _)| *kind == "KillReq" && e.addr == sa).map(|(e, _, _)| e.ms);
                    match kill {
                        Some(t) if t <= m + 3 * TICK + 10_000 => (),
                        other => found = Some((sa.clone(), Finding { sig: "C20:silent-connection-not-closed:writer-blocked".into(), what: format!("{} sent its last message at t={} ms and then stopped reading; the client's writes to it cannot complete; connection and peer state dropped at {:?} (end of run t={} ms)", sa, m, other, o.end_ms), at_seq: u64::MAX })),
                    }
                }
            }
        }
        for (k2, v) in &stats { rep.count(k2, *v); }
        match found {
            None => { if k % 300 == 0 { rep.sample(json!({"scenario": desc, "observed": stats.iter().map(|(a, b)| (a.to_string(), *b)).collect::<HashMap<String, u64>>() })); } }
            Some((a, f)) => {
                let v: Vec<String> = o.events.iter().filter(|e| a.is_empty() || e.addr == a).filter(|e| !matches!(e.kind, EvKind::RecvWait { .. })).filter(|e| !matches!(&e.kind, EvKind::Mgr { kind, .. } if *kind == "SyncStats" || *kind == "Rotation")).map(fmt_ev).collect();
                let start = v.len().saturating_sub(24);
                rep.violation(&f.sig, f.what, json!({"scenario": desc, "connection": a, "trace": v[start..].to_vec()}))
            }
        }
    }
    rep
}

/// Debug helper: run one scenario seed and print the events in a time window.
pub fn debug_one(ctx: &Ctx, seed: u64, from_ms: u64, to_ms: u64) {
    let mut sr = Rng::new(seed);
    let sc = gen_scenario(&mut sr, seed);
    let o = run_sim(sc.cfg, &ctx.scratch, 120);
    for e in o.events.iter().filter(|e| e.ms >= from_ms && e.ms <= to_ms) { println!("{}", fmt_ev(e).chars().take(300).collect::<String>()); }
}
