//! C14 — upload slots are bounded and follow the choking policy: direct-drive histories of real
//! manager commands (c13.rs::run_c14_direct) plus the wire part in the simulation.

use crate::util::{Ctx, Report};

pub fn run(ctx: &Ctx) -> Report {
    let mut rep = Report::new();
    if ctx.want("direct") {
        super::c13::run_c14_direct(ctx, &mut rep);
    }
    if ctx.want("wire") {
        run_wire(ctx, &mut rep);
    }
    rep
}

// ------------------------------------------------------------------------------------------------
// wire part: real connection tasks, real rates, virtual time

use crate::checks::c02::{addr, peer_id};
use crate::checks::c09::{fuzz_leecher, FuzzCfg};
use crate::sim::peers::{seeder, SeederCfg};
use crate::sim::{disk_never, fmt_ev, run_sim, Entry, EvKind, PeerSpec, SimCfg};
use crate::torrent::gen_sim_torrent;
use crate::util::{hash64, panic_site, Rng};
use crate::wire::Msg;
use serde_json::json;
use std::collections::HashMap;
use std::rc::Rc;

pub fn run_wire(ctx: &Ctx, rep: &mut Report) {
    rep.need("wire_connections_checked", 200);
    rep.need("wire_rotations_carried_out", 50);
    let mut r = ctx.rng("c14-wire");
    let n = ctx.count(1_600, 16_000);
    for k in 0..n {
        let seed = ctx.scenario_seed(r.next());
        let mut sr = Rng::new(seed);
        let torrent = Rc::new(gen_sim_torrent(&mut sr, 6, false));
        let np = torrent.n();
        let mut peers = vec![];
        // in half of the scenarios the seeder lacks the last piece and the downloaders advertise it
        // (without ever unchoking us): the client then stays interested in them, so that a peer
        // which says NotInterested is not sent away
        let leeching_for_ever = np > 1 && sr.chance(1, 2);
        let withheld: Vec<bool> = (0..np).map(|i| leeching_for_ever && i == np - 1).collect();
        let mut s = SeederCfg::honest(peer_id(0), (0..np).map(|i| !withheld[i]).collect());
        s.unchoke_after_ms = Some(0);
        s.idle_close_ms = 500_000;
        let s2 = s.clone();
        peers.push(PeerSpec { addr: addr(0), id: peer_id(0), entry: Entry::Dialled { from_announce: 0 }, make: Box::new(move |nth| if nth > 1 { None } else { Some(seeder(s2.clone())) }), chunk: 0, pipe: 1 << 20 });
        let n_dial = sr.range(8, 10) as usize; // the manager dials at most 11 candidates at once (seeder included)
        let n_in = sr.range(2, 4) as usize;
        let dur = sr.range(45_000, 100_000);
        let mut desc_peers = vec![];
        for j in 0..n_dial + n_in {
            let kk = 1 + j;
            let incoming = j >= n_dial;
            let c = FuzzCfg { id: peer_id(kk), incoming, start_ms: sr.range(100, 3000), end_ms: dur + 50_000, pace_ms: match sr.below(4) { 0 => (10, 100), 1 => (100, 800), 2 => (500, 3000), _ => (2000, 9000) }, fuzz: 0, ignore_choke: 0, sulk: *sr.pick(&[0u64, 0, 0, 10]), sulk_on_tick: sr.chance(1, 3), have: withheld.clone() };
            desc_peers.push(json!({"addr": addr(kk), "incoming": incoming, "pace_ms": [c.pace_ms.0, c.pace_ms.1], "sulk_permille": c.sulk, "not_interested_on_rotation_ticks": c.sulk_on_tick}));
            let c2 = c.clone();
            peers.push(PeerSpec { addr: addr(kk), id: peer_id(kk), entry: if incoming { Entry::Incoming { at_ms: sr.range(0, 90) } /* admitted only while fewer than 4 uninterested peers exist, i.e. before the dials */ } else { Entry::Dialled { from_announce: 0 } }, make: Box::new(move |nth| if nth > 1 { None } else { Some(fuzz_leecher(c2.clone())) }), chunk: 0, pipe: 1 << 20 });
        }
        let desc = json!({"seed": seed, "pieces": np, "virtual_ms": dur, "client_never_completes": leeching_for_ever, "downloaders": desc_peers});
        let cfg = SimCfg { torrent, peers, tracker: vec![], failpoints: if sr.chance(1, 3) { Some(sr.next()) } else { None }, max_virtual_ms: dur, stop_on_extract: false, linger_ms: 0, disk_on: disk_never, seed, pre: None, tracker_fn: None, driver: None };
        rep.evaluations += 1;
        let o = run_sim(cfg, &ctx.scratch, 180);
        if o.watchdog { rep.inconclusive(format!("watchdog (scenario seed {})", seed)); continue; }
        if let Some(p) = o.panics.first() { rep.inconclusive(format!("a task panicked ({}): {}", panic_site(p), p)); continue; }
        rep.distinct(&hash64(&desc.to_string()));
        let mut viol: Option<(String, String, u64)> = None;
        // every manager state: slot bounds; after carried-out rotations: policy
        for (e, kind, s) in o.mgr() {
            let regular = s.peers.iter().filter(|p| !p.am_choked && !p.optimistic_unchoke).count();
            let optimistic = s.peers.iter().filter(|p| !p.am_choked && p.optimistic_unchoke).count();
            rep.max("wire_unchoked_at_once", (regular + optimistic) as u64);
            if regular > 10 { viol = Some(("C14:more-than-10-regular-unchoked".into(), format!("{} regular slots in use after {} {}", regular, kind, e.addr), e.seq)); break; }
            if optimistic > 1 { viol = Some(("C14:more-than-1-optimistic".into(), format!("{} optimistic unchokes after {} {}", optimistic, kind, e.addr), e.seq)); break; }
            if kind == "Rotation" && !s.peers.is_empty() && s.peers.iter().all(|p| p.download_rate.is_some() && p.uploaded_rate.is_some()) {
                rep.count("wire_rotations_carried_out", 1);
                let seeding = s.statuses.iter().all(|x| *x == rdest::verif::Status::Have);
                let rate = |p: &rdest::verif::PeerSnap| if seeding { p.download_rate.unwrap() } else { p.uploaded_rate.unwrap() };
                if let Some(p) = s.peers.iter().find(|p| !p.am_choked && !p.interested) { viol = Some(("C14:uninterested-peer-left-unchoked".into(), format!("{} unchoked but not interested after the rotation at t={} ms", p.addr, e.ms), e.seq)); break; }
                if let Some(ms) = s.peers.iter().filter(|p| !p.am_choked && !p.optimistic_unchoke).map(|p| rate(p)).min() {
                    if let Some(p) = s.peers.iter().find(|p| p.am_choked && p.interested && rate(p) > ms) { viol = Some(("C14:better-interested-peer-left-choked".into(), format!("{} (rate {}) choked while a slot holder has rate {} after the rotation at t={} ms", p.addr, rate(p), ms, e.ms), e.seq)); break; }
                }
            }
        }
        // per connection: Choke/Unchoke frames alternate from "choked"; at the end their fold equals the manager's view
        if viol.is_none() {
            let last = o.final_snapshot.as_ref();
            for (a, conn) in o.conns() {
                let mut choked = true;
                let mut frames = 0;
                let mut last_frame_ms = 0;
                for (e, m) in o.client_msgs(&a, conn) {
                    match m {
                        Msg::Choke => { frames += 1; last_frame_ms = e.ms; if choked { viol = Some(("C14:choke-messages-do-not-alternate".into(), format!("Choke written to {} which is already choked", a), e.seq)); break; } choked = true; }
                        Msg::Unchoke => { frames += 1; last_frame_ms = e.ms; if !choked { viol = Some(("C14:choke-messages-do-not-alternate".into(), format!("Unchoke written to {} which is already unchoked", a), e.seq)); break; } choked = false; }
                        _ => (),
                    }
                }
                if viol.is_some() { break; }
                rep.count("wire_connections_checked", 1);
                rep.count("wire_choke_state_frames", frames);
                // agreement at every rotation tick: just before the manager rotates, a peer whose choke
                // state (manager's view) and whose last Choke/Unchoke frame are both older than 2 s has
                // been told exactly what the manager believes
                {
                    let window: Vec<u64> = o.events.iter().filter(|e| e.addr == a && e.conn == conn).map(|e| e.ms).collect();
                    // the connection's life ends with the first KillReq / close seen for it (later events
                    // under the same address belong to new dials)
                    let w0 = window.first().copied().unwrap_or(0);
                    let w1 = o.events.iter().find(|e| e.addr == a && e.conn == conn && (matches!(e.kind, EvKind::PeerSawClose | EvKind::PeerClosed) || matches!(&e.kind, EvKind::Mgr { kind, .. } if *kind == "KillReq"))).map(|e| e.ms).unwrap_or(window.last().copied().unwrap_or(0));
                    let mut frames_tl: Vec<(u64, bool)> = vec![(w0, true)];
                    for (e, m) in o.client_msgs(&a, conn) { match m { Msg::Choke => frames_tl.push((e.ms, true)), Msg::Unchoke => frames_tl.push((e.ms, false)), _ => () } }
                    let mut mgr_tl: Vec<(u64, bool)> = vec![];
                    for (e, _, snap) in o.mgr() {
                        if e.ms < w0 || e.ms >= w1 { continue; }
                        if let Some(p) = snap.peers.iter().find(|p| p.addr == a) { if mgr_tl.last().map(|x| x.1) != Some(p.am_choked) { mgr_tl.push((e.ms, p.am_choked)); } }
                    }
                    for (e, k, _) in o.mgr() {
                        if k != "Rotation" || e.ms < w0 + 2_000 || e.ms >= w1 { continue; }
                        let f = frames_tl.iter().rev().find(|x| x.0 < e.ms).copied();
                        let g = mgr_tl.iter().rev().find(|x| x.0 < e.ms).copied();
                        if let (Some(f), Some(g)) = (f, g) {
                            if e.ms >= f.0 + 2_000 && e.ms >= g.0 + 2_000 {
                                rep.count("wire_agreements_checked_at_rotation_ticks", 1);
                                if f.1 != g.1 {
                                    viol = Some(("C14:messages-disagree-with-state".into(), format!("{}: just before the rotation at t={} ms the frames written say choked={} (since t={} ms) while the manager says {} (since t={} ms)", a, e.ms, f.1, f.0, g.1, g.0), e.seq));
                                    break;
                                }
                            }
                        }
                    }
                    if viol.is_some() { break; }
                }
                // quiescent agreement: the last rotation was >= 1 s before the end, connection still open
                let still_open = !o.events.iter().any(|e| e.addr == a && e.conn == conn && (matches!(e.kind, EvKind::PeerSawClose | EvKind::PeerClosed) || matches!(&e.kind, EvKind::Mgr { kind, .. } if *kind == "KillReq")));
                if let Some(p) = last.and_then(|s| s.peers.iter().find(|p| p.addr == a)).filter(|_| still_open) {
                    let last_rotation = o.mgr().filter(|(_, k, _)| *k == "Rotation").map(|(e, _, _)| e.ms).last().unwrap_or(0);
                    if last_rotation + 1_000 < o.end_ms && last_frame_ms + 1_000 < o.end_ms && o.events.iter().filter(|e| e.addr == a && matches!(&e.kind, EvKind::Mgr { kind, .. } if *kind == "RecvBitfield")).all(|e| e.ms + 1_000 < o.end_ms) {
                        rep.count("wire_final_agreements_checked", 1);
                        if p.am_choked != choked {
                            viol = Some(("C14:messages-disagree-with-state".into(), format!("{}: frames written say choked={}, the manager says {} at the quiescent end", a, choked, p.am_choked), u64::MAX));
                            break;
                        }
                    }
                }
            }
        }
        match viol {
            None => { if k % 60 == 0 { rep.sample(json!({"wire_scenario": desc, "rotations": o.mgr().filter(|(_, k, _)| *k == "Rotation").count()})); } }
            Some((sig, what, at)) => {
                let v: Vec<String> = o.events.iter().filter(|e| e.seq <= at.saturating_add(1)).filter(|e| matches!(&e.kind, EvKind::Send { msg: Msg::Choke | Msg::Unchoke, .. }) || matches!(&e.kind, EvKind::Mgr { kind, .. } if *kind == "Rotation" || *kind == "RecvBitfield" || *kind == "RecvInterested" || *kind == "RecvNotInterested")).map(fmt_ev).collect();
                let start = v.len().saturating_sub(16);
                rep.violation(&sig, what, json!({"wire_scenario": desc, "trace": v[start..].to_vec()}))
            }
        }
    }
    let _ = HashMap::<u8, u8>::new();
}
