//! C14 — upload slots are bounded and follow the choking policy: direct-drive histories of real
//! manager commands (c13.rs::run_c14_direct) plus the wire part in the simulation.

use crate::util::{Ctx, Report};

pub fn run(ctx: &Ctx) -> Report {
    let mut rep = Report::new();
    if ctx.want("direct") {
        super::c13::run_c14_direct(ctx, &mut rep);
    }
    rep
}
