//! C19 — tracker replies are read faithfully (part a, direct) and tracker faults are survived
//! (part b, simulation with a scripted, gated tracker; see sim::c19b).

use crate::benc::{Gen, BV};
use crate::util::{catch, panic_site, show, Ctx, Report, Rng};
use rdest::TrackerResp;
use serde_json::json;

#[derive(Clone, Debug, PartialEq)]
enum Class {
    /// clearly well-formed: must be listed
    Good(String, [u8; 20]),
    /// clearly malformed: must be skipped
    Bad,
    /// neither (e.g. port > 65535): either treatment is accepted
    Unclear(String, [u8; 20]),
}

fn gen_entry(r: &mut Rng, g: &Gen) -> (BV, Class) {
    let ip = match r.below(5) {
        0 => "10.0.0.1".to_string(),
        1 => "example.invalid".to_string(),
        2 => "::1".to_string(),
        _ => format!("192.168.{}.{}", r.below(256), r.below(256)),
    };
    let mut id = [0u8; 20];
    id.copy_from_slice(&r.bytes(20));
    let port = match r.below(6) { 0 => 0, 1 => 65535, 2 => 6881, _ => r.range(1, 65535) as i64 };
    let good = BV::Dict(vec![
        (b"ip".to_vec(), BV::s(&ip)),
        (b"peer id".to_vec(), BV::Str(id.to_vec())),
        (b"port".to_vec(), BV::Int(port)),
    ]);
    let addr = format!("{}:{}", ip, port);
    match r.below(12) {
        0 => (BV::Int(5), Class::Bad),
        1 => (BV::s("notadict"), Class::Bad),
        2 => (BV::Dict(vec![(b"ip".to_vec(), BV::s(&ip)), (b"port".to_vec(), BV::Int(port))]), Class::Bad), // id missing
        3 => (BV::Dict(vec![(b"ip".to_vec(), BV::s(&ip)), (b"peer id".to_vec(), BV::Str(r.bytes(19))), (b"port".to_vec(), BV::Int(port))]), Class::Bad),
        4 => (BV::Dict(vec![(b"ip".to_vec(), BV::s(&ip)), (b"peer id".to_vec(), BV::Str(r.bytes(21))), (b"port".to_vec(), BV::Int(port))]), Class::Bad),
        5 => (BV::Dict(vec![(b"ip".to_vec(), BV::s(&ip)), (b"peer id".to_vec(), BV::Str(id.to_vec())), (b"port".to_vec(), BV::Int(-1 - r.below(70000) as i64))]), Class::Bad),
        6 => (BV::Dict(vec![(b"ip".to_vec(), BV::Str(vec![0xff, 0xfe, b'a'])), (b"peer id".to_vec(), BV::Str(id.to_vec())), (b"port".to_vec(), BV::Int(port))]), Class::Bad),
        7 => (BV::Dict(vec![(b"ip".to_vec(), BV::Int(1)), (b"peer id".to_vec(), BV::Str(id.to_vec())), (b"port".to_vec(), BV::Int(port))]), Class::Bad),
        8 => (BV::Dict(vec![(b"ip".to_vec(), BV::s(&ip)), (b"peer id".to_vec(), BV::Str(id.to_vec())), (b"port".to_vec(), BV::s("6881"))]), Class::Bad),
        9 => {
            let p = r.range(65536, 1 << 40) as i64;
            (BV::Dict(vec![(b"ip".to_vec(), BV::s(&ip)), (b"peer id".to_vec(), BV::Str(id.to_vec())), (b"port".to_vec(), BV::Int(p))]), Class::Unclear(format!("{}:{}", ip, p), id))
        }
        10 => {
            // extra keys do not make an entry malformed
            let mut e = vec![(b"ip".to_vec(), BV::s(&ip)), (b"peer id".to_vec(), BV::Str(id.to_vec())), (b"port".to_vec(), BV::Int(port))];
            e.push((b"zz".to_vec(), g.value(r, 2)));
            (BV::Dict(e), Class::Good(addr, id))
        }
        _ => (good, Class::Good(addr, id)),
    }
}

pub fn run_a(ctx: &Ctx, rep: &mut Report) {
    let g = Gen { max_depth: 3, max_items: 3, max_str: 8 };
    let mut r = ctx.rng("c19a");
    let n = ctx.count(90_000, 1_500_000);
    rep.need("replies_checked", 2000);
    rep.need("failure_replies_checked", 100);
    for k in 0..n {
        let entries: Vec<(BV, Class)> = (0..r.below(8)).map(|_| gen_entry(&mut r, &g)).collect();
        let failure = r.chance(1, 8);
        let mut top: Vec<(Vec<u8>, BV)> = vec![
            (b"interval".to_vec(), BV::Int(r.range(0, 100000) as i64)),
            (b"peers".to_vec(), BV::List(entries.iter().map(|e| e.0.clone()).collect())),
        ];
        if failure {
            top.push((b"failure reason".to_vec(), BV::s(*r.pick(&["torrent not registered", "", "ünknown"]))));
            if r.chance(1, 2) {
                top.retain(|e| e.0 != b"peers"); // typical failure reply: nothing else in it
            }
        }
        for _ in 0..r.below(3) {
            let key = g.string(&mut r);
            if top.iter().any(|e| e.0 == key) || key == b"failure reason" || key == b"peers" || key == b"interval" {
                continue;
            }
            top.push((key, g.value(&mut r, 1)));
        }
        r.shuffle(&mut top);
        let doc = BV::Dict(top).to_bytes_as_is();
        rep.evaluations += 1;
        let res = match catch(|| TrackerResp::from_bencode(&doc)) {
            Err(p) => {
                rep.violation(&format!("C19:panic-parse:{}", panic_site(&p)), p, json!({"reply": show(&doc)}));
                continue;
            }
            Ok(x) => x,
        };
        if failure {
            match res {
                Err(_) => rep.count("failure_replies_checked", 1),
                Ok(_) => rep.violation("C19:failure-reason-not-reported", "a reply carrying a failure reason was read as success", json!({"reply": show(&doc)})),
            }
            continue;
        }
        match res {
            Err(e) => rep.violation("C19:wellformed-reply-rejected", format!("well-formed reply rejected: {}", e), json!({"reply": show(&doc)})),
            Ok(resp) => {
                let got = match catch(|| resp.peers()) {
                    Ok(g) => g,
                    Err(p) => {
                        rep.violation(&format!("C19:panic-peers:{}", panic_site(&p)), p, json!({"reply": show(&doc)}));
                        continue;
                    }
                };
                // got must be: all Good in order, no Bad, Unclear optional (in position)
                let mut gi = 0;
                let mut ok = true;
                for (_, c) in &entries {
                    match c {
                        Class::Good(a, id) => {
                            if gi < got.len() && got[gi].0 == *a && got[gi].1 == *id { gi += 1; } else { ok = false; break; }
                        }
                        Class::Unclear(a, id) => {
                            if gi < got.len() && got[gi].0 == *a && got[gi].1 == *id { gi += 1; }
                        }
                        Class::Bad => (),
                    }
                }
                if gi != got.len() { ok = false; }
                if ok {
                    rep.count("replies_checked", 1);
                    let sig: Vec<u8> = entries.iter().map(|e| match e.1 { Class::Good(..) => 0u8, Class::Bad => 1, Class::Unclear(..) => 2 }).collect();
                    if sig.iter().any(|x| *x != 0) { rep.distinct(&doc); }
                    if k % 500 == 0 {
                        rep.sample(json!({"reply": show(&doc), "entries": sig, "peers_returned": got.len()}));
                    }
                } else {
                    rep.violation("C19:peer-list-unfaithful", "peers() is not the ordered list of well-formed entries", json!({"reply": show(&doc), "got": got.iter().map(|g| g.0.clone()).collect::<Vec<_>>() }));
                }
            }
        }
    }
    // totality on delimiter soup and mutated replies
    let mut r = ctx.rng("c19a-total");
    let n = ctx.count(120_000, 1_500_000);
    for _ in 0..n {
        let mut doc: Vec<u8> = if r.chance(1, 2) {
            b"d8:intervali1800e5:peersld2:ip8:10.0.0.17:peer id20:AAAAABBBBBCCCCCDDDDD4:porti7001eeee".to_vec()
        } else {
            let l = r.usize(30);
            (0..l).map(|_| *r.pick(b"dlie0123456789:-peersinterval")).collect()
        };
        for _ in 0..r.below(4) {
            if doc.is_empty() { break; }
            let p = r.usize(doc.len());
            match r.below(4) { 0 => doc[p] = r.below(256) as u8, 1 => { doc.remove(p); } 2 => doc.insert(p, *r.pick(b"dlie019:-")), _ => doc.truncate(p) }
        }
        rep.evaluations += 1;
        rep.count("totality_inputs", 1);
        match catch(|| TrackerResp::from_bencode(&doc).map(|r| r.peers().len())) {
            Err(p) => rep.violation(&format!("C19:panic-parse:{}", panic_site(&p)), p, json!({"reply": show(&doc)})),
            Ok(_) => (),
        }
    }
}

/// The real HTTP client's retry loop (`TrackerClient::run`) against a scripted loopback tracker:
/// after any sequence of faults it must report each failure, keep retrying, report the good reply
/// and end. Real time: failures are retried after 1 s, so sequences are short and run in parallel.
pub fn run_client(ctx: &Ctx, rep: &mut Report) {
    use rdest::verif::TrackerCmd;
    use tokio::io::{AsyncReadExt, AsyncWriteExt};
    rep.need("client_fault_sequences_survived", 8);
    std::env::set_var("NO_PROXY", "127.0.0.1,localhost");
    std::env::set_var("no_proxy", "127.0.0.1,localhost");
    for v in ["HTTP_PROXY", "http_proxy", "HTTPS_PROXY", "https_proxy", "ALL_PROXY", "all_proxy"] { std::env::remove_var(v); }
    let rt = tokio::runtime::Builder::new_current_thread().enable_all().build().unwrap();
    let mut r = ctx.rng("c19-client");
    const KINDS: [&str; 6] = ["close-at-once", "http-500", "http-404", "garbage-body", "failure-reason", "empty-body"];
    let n = ctx.count(32, 320);
    rt.block_on(async {
        let listener = match tokio::net::TcpListener::bind("127.0.0.1:0").await { Ok(l) => l, Err(e) => { rep.inconclusive(format!("cannot bind loopback: {}", e)); return; } };
        let port = listener.local_addr().unwrap().port();
        for k in 0..n {
            // lengths 1..5, now and then 6..7 (a retry budget of five would show)
            let len = if k % 8 == 7 { r.range(6, 7) } else { r.range(1, 5) } as usize;
            let faults: Vec<usize> = (0..len).map(|_| r.usize(KINDS.len())).collect();
            let torrent = format!("d8:announce{}:http://127.0.0.1:{}/a4:infod6:lengthi1e4:name1:x12:piece lengthi16e6:pieces20:AAAAABBBBBCCCCCDDDDDee", format!("http://127.0.0.1:{}/a", port).len(), port);
            let m = match rdest::Metainfo::from_bencode(torrent.as_bytes()) { Ok(m) => m, Err(e) => { rep.inconclusive(format!("harness torrent rejected: {}", e)); continue; } };
            let (tx, mut rx) = tokio::sync::mpsc::channel(64);
            let mut client = rdest::TrackerClient::new(b"-RD0001-verifclient0", m, tx);
            let job = tokio::spawn(async move { client.run().await });
            rep.evaluations += 1;
            let names: Vec<&str> = faults.iter().map(|f| KINDS[*f]).collect();
            let budget = std::time::Duration::from_secs(10 + 2 * len as u64);
            let served = tokio::time::timeout(budget, async {
                for step in 0..=len {
                    let (mut sock, _) = listener.accept().await.ok()?;
                    let mut buf = vec![];
                    let mut tmp = [0u8; 2048];
                    loop {
                        let n = sock.read(&mut tmp).await.ok()?;
                        if n == 0 { break; }
                        buf.extend_from_slice(&tmp[..n]);
                        if buf.windows(4).any(|w| w == b"\r\n\r\n") { break; }
                    }
                    let body: Option<(&str, Vec<u8>)> = if step == len { Some(("200 OK", b"d8:intervali1800e5:peerslee".to_vec())) } else {
                        match faults[step] { 0 => None, 1 => Some(("500 Internal Server Error", vec![])), 2 => Some(("404 Not Found", b"nope".to_vec())), 3 => Some(("200 OK", b"<html>\x00\xff".to_vec())), 4 => Some(("200 OK", b"d14:failure reason4:busye".to_vec())), _ => Some(("200 OK", vec![])) }
                    };
                    if let Some((status, b)) = body {
                        let head = format!("HTTP/1.1 {}\r\nContent-Length: {}\r\nConnection: close\r\n\r\n", status, b.len());
                        let _ = sock.write_all(head.as_bytes()).await;
                        let _ = sock.write_all(&b).await;
                    }
                    let _ = sock.shutdown().await;
                }
                Some(())
            }).await;
            // what the client reported
            let mut reports = vec![];
            let deadline = tokio::time::Instant::now() + std::time::Duration::from_secs(5);
            loop {
                match tokio::time::timeout_at(deadline, rx.recv()).await {
                    Ok(Some(TrackerCmd::Fail(_))) => reports.push("fail"),
                    Ok(Some(TrackerCmd::TrackerResp(_))) => { reports.push("ok"); break; }
                    _ => break,
                }
            }
            let ended = tokio::time::timeout(std::time::Duration::from_secs(3), job).await.is_ok();
            let want: Vec<&str> = std::iter::repeat("fail").take(len).chain(std::iter::once("ok")).collect();
            let w = serde_json::json!({"engine": "real TrackerClient against a scripted loopback tracker", "faults": names, "client_reported": reports, "all_requests_arrived": served.is_ok(), "task_ended": ended});
            if reports == want && ended {
                rep.count("client_fault_sequences_survived", 1);
                rep.distinct(&("client", &faults));
                for f in &names { rep.set("client_fault_kinds", *f); }
                if k % 8 == 0 { rep.sample(w); }
            } else if served.is_err() && reports.len() < want.len() {
                rep.violation("C19:http-client-stops-retrying", format!("after the faults {:?} the client made too few announces (reported {:?}); the good reply was never fetched", names, reports), w);
            } else {
                rep.violation("C19:http-client-misreports", format!("after the faults {:?} the client reported {:?} (expected {:?}), task ended: {}", names, reports, want, ended), w);
            }
        }
    });
}

pub fn run(ctx: &Ctx) -> Report {
    let mut rep = Report::new();
    if ctx.want("replies") {
        run_a(ctx, &mut rep);
    }
    if ctx.want("client") {
        run_client(ctx, &mut rep);
    }
    if ctx.want("faults") {
        crate::sim::c19b::run(ctx, &mut rep);
    }
    rep
}
