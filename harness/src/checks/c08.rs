//! C08 — only peers of the same torrent (and expected identity) are served.
//! Wire oracle over the client's written frames per connection, in the simulation, against
//! handshake abusers on incoming and outgoing connections.

use crate::checks::c02::{addr, peer_id};
use crate::sim::peers::{seeder, SeederCfg};
use crate::sim::{disk_never, fmt_ev, run_sim, Behaviour, Entry, Ev, EvKind, Outcome, PeerIo, PeerSpec, SimCfg, OWN_ID};
use crate::torrent::{gen_sim_torrent, Torrent};
use crate::util::{hash64, panic_site, Ctx, Report, Rng};
use crate::wire::{bitfield_bytes, Msg, PROTO};
use serde_json::{json, Value};
use std::collections::HashMap;
use std::rc::Rc;

#[derive(Clone, Debug)]
pub enum Step {
    Wait(u64),
    Send(Msg),
    /// request a block of a piece the client has announced (skipped if none yet)
    RequestOwned,
}

/// Plays `steps`, draining and remembering what the client announces; then lingers.
pub fn abuser(steps: Vec<Step>, linger_ms: u64) -> Behaviour {
    Box::new(move |mut io: PeerIo| Box::pin(async move {
        let t = io.torrent.clone();
        let mut has = vec![false; t.n()];
        let drain = |m: &Msg, has: &mut Vec<bool>| match m {
            Msg::Bitfield(b) => *has = crate::wire::bitfield_bits(b, has.len()),
            Msg::Have(i) => { if (*i as usize) < has.len() { has[*i as usize] = true; } }
            _ => (),
        };
        for s in steps {
            match s {
                Step::Wait(ms) => {
                    let until = io.log.now_ms() + ms;
                    loop {
                        let now = io.log.now_ms();
                        if now >= until || io.eof { break; }
                        match io.recv_within(until - now).await { Ok(Some(m)) => drain(&m, &mut has), Ok(None) => break, Err(()) => break }
                    }
                }
                Step::Send(m) => { if !io.send(&m).await { break; } }
                Step::RequestOwned => {
                    // what the client owns is known to the harness even if it never told this peer
                    let i = match has.iter().position(|h| *h) { Some(i) => i, None => 0 };
                    let l = t.piece_len_of(i).min(16384) as u32;
                    if !io.send(&Msg::Request(i as u32, 0, l)).await { break; }
                }
            }
            if io.eof { break; }
        }
        let mut quiet = io.log.now_ms();
        loop {
            if io.eof { return; }
            let now = io.log.now_ms();
            if now >= quiet + linger_ms { break; }
            match io.recv_within(quiet + linger_ms - now).await { Ok(Some(m)) => { drain(&m, &mut has); quiet = io.log.now_ms(); } Ok(None) => return, Err(()) => break }
        }
        io.close();
    }))
}

#[derive(Clone, Debug, PartialEq)]
pub enum HsKind { Valid, WrongHash, WrongId, WrongProto, ShortProto }

pub fn hs(t: &Torrent, kind: &HsKind, announced_id: &[u8; 20], r: &mut Rng) -> Msg {
    let ih = t.info_hash();
    match kind {
        HsKind::Valid => Msg::handshake(&ih, announced_id),
        HsKind::WrongHash => {
            let mut h = ih;
            match r.below(3) { 0 => h[0] ^= 1, 1 => h[19] ^= 0x80, _ => { h.copy_from_slice(&r.bytes(20)); } }
            Msg::handshake(&h, announced_id)
        }
        HsKind::WrongId => {
            let mut i = *announced_id;
            match r.below(5) { 0 => i[0] ^= 1, 1 => i[19] ^= 0x20, 2 => i[19] ^= 0x01, 3 => i[r.range(8, 19) as usize] ^= 0x02, _ => { i.copy_from_slice(&r.bytes(20)); } }
            Msg::handshake(&ih, &i)
        }
        HsKind::WrongProto => {
            let mut p = PROTO.to_vec();
            // keep byte 4 of the stream ('T') so that the decoder still sniffs a handshake
            let k = *r.pick(&[0usize, 1, 2, 4, 10, 18]);
            p[k] ^= 0x20;
            Msg::Handshake { proto: p, reserved: [0; 8], info_hash: ih, peer_id: *announced_id }
        }
        HsKind::ShortProto => Msg::Handshake { proto: b"BitTorrent protoco".to_vec(), reserved: [0; 8], info_hash: ih, peer_id: *announced_id },
    }
}

pub struct Scenario { pub cfg: SimCfg, pub desc: Value, pub abusers: Vec<(String, bool, [u8; 20])> }

/// Family: the tracker lists, in a later announce, an address next to one that is still connected;
/// the peer at the new address presents the id announced for the *other* address.
pub fn gen_relisted(r: &mut Rng, seed: u64) -> Scenario {
    let torrent = Rc::new(gen_sim_torrent(r, 6, true));
    let n = torrent.n();
    let mut peers = vec![];
    // spec order is list order; the client pops candidates from the end
    // C: refused, so that the client runs out of candidates and announces again
    peers.push(PeerSpec { addr: addr(2), id: peer_id(2), entry: Entry::Dialled { from_announce: 0 }, make: Box::new(|_| None), chunk: 0, pipe: 1 << 20 });
    // X: listed from announce 1 on with id peer_id(1), presents the id announced for B
    let stranger_kind = r.below(3);
    let presented = match stranger_kind { 0 => peer_id(0), 1 => peer_id(2), _ => { let mut i = peer_id(1); i[19] ^= 1; i } };
    let mut steps = vec![Step::Send(Msg::handshake(&torrent.info_hash(), &presented)), Step::Send(Msg::Bitfield(bitfield_bytes(&vec![true; n]))), Step::Wait(r.range(1500, 4000)), Step::Send(Msg::Unchoke), Step::Wait(3000), Step::Send(Msg::Interested), Step::RequestOwned];
    if r.chance(1, 2) { steps.insert(1, Step::Wait(r.range(1, 1200))); }
    let st = steps.clone();
    peers.push(PeerSpec { addr: addr(1), id: peer_id(1), entry: Entry::Dialled { from_announce: 1 }, make: Box::new(move |nth| if nth > 1 { None } else { Some(abuser(st.clone(), 30_000)) }), chunk: 0, pipe: 1 << 20 });
    // B: connected throughout, never unchokes (so pieces stay missing and the client keeps looking for peers)
    let mut b = SeederCfg::honest(peer_id(0), vec![true; n]);
    b.unchoke_after_ms = Some(10_000_000);
    b.idle_close_ms = 10_000_000;
    b.chatter_ms = Some(40_000);
    let b2 = b.clone();
    peers.push(PeerSpec { addr: addr(0), id: peer_id(0), entry: Entry::Dialled { from_announce: 0 }, make: Box::new(move |nth| if nth > 1 { None } else { Some(seeder(b2.clone())) }), chunk: 0, pipe: 1 << 20 });
    let presents = ["the id announced for the connected peer", "the id announced for the refused peer", "own id with last bit flipped"][stranger_kind as usize];
    let desc = json!({"seed": seed, "family": "address listed next to a still connected one", "pieces": n, "abusers": [{"addr": addr(1), "incoming": false, "announced_id": "peer 1", "presents": presents}]});
    Scenario { cfg: SimCfg { torrent, peers, tracker: vec![], failpoints: None, max_virtual_ms: 70_000, stop_on_extract: false, linger_ms: 0, disk_on: disk_never, seed, pre: None, tracker_fn: None, driver: None }, desc, abusers: vec![(addr(1), false, peer_id(1))] }
}

pub fn gen_scenario(r: &mut Rng, seed: u64) -> Scenario {
    if r.chance(1, 10) {
        return gen_relisted(r, seed);
    }
    let torrent = Rc::new(gen_sim_torrent(r, 6, true));
    let n = torrent.n();
    let mut peers = vec![];
    let mut pdesc = vec![];
    let mut s = SeederCfg::honest(peer_id(0), vec![true; n]);
    s.unchoke_after_ms = Some(0);
    s.idle_close_ms = 100_000;
    let s2 = s.clone();
    peers.push(PeerSpec { addr: addr(0), id: peer_id(0), entry: Entry::Dialled { from_announce: 0 }, make: Box::new(move |nth| if nth > 1 { None } else { Some(seeder(s2.clone())) }), chunk: 0, pipe: 1 << 20 });
    let mut abusers = vec![];
    for j in 0..r.range(1, 3) as usize {
        let k = 1 + j;
        let incoming = r.chance(1, 2);
        // a third of the announced ids end in bytes that are no valid UTF-8 (ids are binary)
        let mut announced = peer_id(k);
        let binary_id = r.chance(1, 3);
        if binary_id { for b in announced[8..].iter_mut() { *b = 0x80 + r.below(0x40) as u8; } }
        else if r.chance(1, 8) { announced = [0u8; 20]; } // an id of twenty NUL bytes is an id like any other
        let kind = match r.below(6) { 0 => HsKind::Valid, 1 => HsKind::WrongHash, 2 => if incoming { HsKind::WrongHash } else { HsKind::WrongId }, 3 => HsKind::WrongProto, 4 => HsKind::ShortProto, _ => HsKind::WrongHash };
        // where the handshake sits in an otherwise plausible history
        let position = r.below(5); // 0 first, 1 after some messages, 2 absent, 3 valid then invalid, 4 invalid then valid
        let plausible = |r: &mut Rng| -> Vec<Step> {
            let mut v = vec![];
            for _ in 0..r.range(1, 4) {
                v.push(match r.below(6) {
                    0 => Step::Send(Msg::Bitfield(bitfield_bytes(&(0..n).map(|_| r.chance(1, 2)).collect::<Vec<_>>()))),
                    1 => Step::Send(Msg::Interested),
                    2 => Step::RequestOwned,
                    3 => Step::Send(Msg::Unchoke),
                    4 => Step::Wait(r.range(1, 12_000)),
                    _ => Step::Send(Msg::Have(r.below(n as u64) as u32)),
                });
            }
            v
        };
        let mut steps = vec![Step::Wait(r.range(1500, 4000))]; // let the client obtain pieces first
        let bad = hs(&torrent, &kind, &announced, r);
        let good = hs(&torrent, &HsKind::Valid, &announced, r);
        match position {
            0 => { steps.push(Step::Send(bad.clone())); steps.extend(plausible(r)); }
            1 => { steps.extend(plausible(r)); steps.push(Step::Send(bad.clone())); steps.extend(plausible(r)); }
            2 => { steps.extend(plausible(r)); steps.push(Step::Send(Msg::Interested)); steps.push(Step::Wait(r.range(100, 15_000))); steps.push(Step::RequestOwned); steps.push(Step::RequestOwned); }
            3 => { steps.push(Step::Send(good.clone())); steps.push(Step::Send(Msg::Bitfield(bitfield_bytes(&vec![false; n])))); steps.push(Step::Send(Msg::Interested)); steps.push(Step::Wait(r.range(100, 3000))); steps.push(Step::Send(bad.clone())); steps.push(Step::Wait(50)); steps.push(Step::RequestOwned); }
            _ => { steps.push(Step::Send(bad.clone())); steps.push(Step::Wait(r.range(1, 500))); steps.push(Step::Send(good.clone())); steps.push(Step::Send(Msg::Interested)); steps.push(Step::Wait(500)); steps.push(Step::RequestOwned); }
        }
        steps.push(Step::Wait(3000));
        steps.push(Step::Send(Msg::Interested));
        steps.push(Step::RequestOwned);
        let pos_name = ["first", "after other messages", "absent", "valid then invalid", "invalid then valid"][position as usize];
        pdesc.push(json!({"addr": addr(k), "incoming": incoming, "handshake": format!("{:?}", kind), "position": pos_name,
            "steps": steps.iter().map(|s| match s { Step::Wait(ms) => format!("wait {}ms", ms), Step::Send(m) => crate::sim::fmt_msg(m), Step::RequestOwned => "Request(owned piece)".into() }).collect::<Vec<_>>() }));
        let st = steps.clone();
        peers.push(PeerSpec { addr: addr(k), id: announced, entry: if incoming { Entry::Incoming { at_ms: r.range(0, 3000) } } else { Entry::Dialled { from_announce: 0 } }, make: Box::new(move |nth| if nth > 1 { None } else { Some(abuser(st.clone(), 30_000)) }), chunk: *r.pick(&[0usize, 0, 1, 7]), pipe: 1 << 20 });
        abusers.push((addr(k), incoming, announced));
    }
    let desc = json!({"seed": seed, "pieces": n, "piece_length": torrent.piece_len, "abusers": pdesc});
    Scenario { cfg: SimCfg { torrent, peers, tracker: vec![], failpoints: None, max_virtual_ms: 70_000, stop_on_extract: false, linger_ms: 0, disk_on: disk_never, seed, pre: None, tracker_fn: None, driver: None }, desc, abusers }
}

pub struct Finding { pub sig: String, pub what: String, pub at_seq: u64 }

fn hs_valid(t: &Torrent, m: &Msg, incoming: bool, announced: &[u8; 20]) -> bool {
    match m {
        Msg::Handshake { proto, info_hash, peer_id, .. } => proto.as_slice() == &PROTO[..] && *info_hash == t.info_hash() && (incoming || peer_id == announced),
        _ => false,
    }
}

pub fn check_conn(t: &Torrent, o: &Outcome, a: &str, incoming: bool, announced: &[u8; 20], stats: &mut HashMap<&'static str, u64>) -> Option<Finding> {
    let evs: Vec<&Ev> = o.events.iter().filter(|e| e.addr == a && e.conn != 0).collect();
    let mut peer_valid_hs_seq: Option<u64> = None;
    let mut first_invalid: Option<(u64, u64)> = None; // (seq, ms)
    let mut client_hs_seq: Option<u64> = None;
    let mut client_sends = 0;
    for e in &evs {
        match &e.kind {
            EvKind::PeerSent { msg: Some(m @ Msg::Handshake { .. }), .. } => {
                if hs_valid(t, m, incoming, announced) { if peer_valid_hs_seq.is_none() && first_invalid.is_none() { peer_valid_hs_seq = Some(e.seq); } }
                else if first_invalid.is_none() { first_invalid = Some((e.seq, e.ms)); }
            }
            EvKind::Send { msg, .. } => {
                client_sends += 1;
                if client_sends == 1 {
                    // the first thing the client ever writes is its handshake, naming its torrent and itself
                    match msg {
                        Msg::Handshake { proto, info_hash, peer_id, reserved } if proto.as_slice() == &PROTO[..] && *info_hash == t.info_hash() && *peer_id == OWN_ID && *reserved == [0u8; 8] => { client_hs_seq = Some(e.seq); *stats.entry("own_handshakes_checked").or_default() += 1; }
                        _ => return Some(Finding { sig: "C08:first-write-is-not-own-handshake".into(), what: format!("first message written to {} is {}", a, crate::sim::fmt_msg(msg)), at_seq: e.seq }),
                    }
                }
                if incoming && peer_valid_hs_seq.is_none() {
                    return Some(Finding { sig: "C08:reply-before-valid-handshake".into(), what: format!("{} written to incoming connection {} before it sent a valid handshake", crate::sim::fmt_msg(msg), a), at_seq: e.seq });
                }
                if let Msg::Piece(..) = msg {
                    if peer_valid_hs_seq.is_none() || client_hs_seq.is_none() {
                        return Some(Finding { sig: "C08:data-without-completed-handshake".into(), what: format!("piece data written to {} which has not completed a valid handshake", a), at_seq: e.seq });
                    }
                }
                if let Some((_, ms)) = first_invalid {
                    if e.ms > ms + 1_000 {
                        return Some(Finding { sig: "C08:served-after-invalid-handshake".into(), what: format!("{} written to {} {} ms after it sent an invalid handshake", crate::sim::fmt_msg(msg), a, e.ms - ms), at_seq: e.seq });
                    }
                }
            }
            _ => (),
        }
    }
    if let Some((seq, ms)) = first_invalid {
        *stats.entry("invalid_handshakes_judged").or_default() += 1;
        // did the client see it at all (connection might have been closed by the client before)?
        let killed = o.mgr().find(|(e, k, _)| *k == "KillReq" && e.addr == a && e.seq > seq || (*k == "KillReq" && e.addr == a));
        match killed {
            Some((e, _, after)) => {
                if e.seq > seq && e.ms > ms + 1_000 {
                    return Some(Finding { sig: "C08:invalid-handshake-not-closed-promptly".into(), what: format!("{} sent an invalid handshake at t={}ms; the connection was dropped only at t={}ms", a, ms, e.ms), at_seq: e.seq });
                }
                if after.peers.iter().any(|p| p.addr == a) {
                    return Some(Finding { sig: "C08:peer-not-forgotten".into(), what: format!("{} still in the manager's table after its connection was dropped", a), at_seq: e.seq });
                }
            }
            None => {
                // never admitted (incoming refused) is fine; otherwise it must have been dropped
                let admitted = o.mgr().any(|(_, _, s)| s.peers.iter().any(|p| p.addr == a));
                if admitted && o.end_ms > ms + 1_000 {
                    return Some(Finding { sig: "C08:invalid-handshake-not-closed-promptly".into(), what: format!("{} sent an invalid handshake at t={}ms and is still connected at t={}ms", a, ms, o.end_ms), at_seq: seq });
                }
            }
        }
    } else if peer_valid_hs_seq.is_some() {
        *stats.entry("valid_handshakes_seen").or_default() += 1;
    } else {
        *stats.entry("connections_without_handshake").or_default() += 1;
    }
    None
}

pub fn run(ctx: &Ctx) -> Report {
    let mut rep = Report::new();
    rep.need("invalid_handshakes_judged", 300);
    rep.need("own_handshakes_checked", 500);
    let mut r = ctx.rng("c08");
    let n = ctx.count(9_000, 90_000);
    for k in 0..n {
        let seed = ctx.scenario_seed(r.next());
        let mut sr = Rng::new(seed);
        let sc = gen_scenario(&mut sr, seed);
        let t = sc.cfg.torrent.clone();
        let desc = sc.desc.clone();
        rep.evaluations += 1;
        let o = run_sim(sc.cfg, &ctx.scratch, 120);
        if o.watchdog { rep.inconclusive(format!("watchdog (scenario seed {})", seed)); continue; }
        rep.distinct(&hash64(&desc["abusers"].to_string()));
        if let Some(p) = o.panics.first() {
            rep.inconclusive(format!("a task panicked ({}): {}", panic_site(p), p));
            continue;
        }
        let mut stats = HashMap::new();
        let mut found = None;
        for (a, incoming, announced) in &sc.abusers {
            if let Some(f) = check_conn(&t, &o, a, *incoming, announced, &mut stats) { found = Some((a.clone(), f)); break; }
        }
        // the honest seeder's connection must satisfy the same rules
        if found.is_none() { if let Some(f) = check_conn(&t, &o, &addr(0), false, &peer_id(0), &mut stats) { found = Some((addr(0), f)); } }
        for (k2, v) in &stats { rep.count(k2, *v); }
        rep.count("pieces_sent_to_abusers", o.events.iter().filter(|e| e.addr != addr(0) && matches!(&e.kind, EvKind::Send { msg: Msg::Piece(..), .. })).count() as u64);
        match found {
            None => { if k % 300 == 0 { rep.sample(json!({"scenario": desc})); } }
            Some((a, f)) => {
                let v: Vec<String> = o.events.iter().filter(|e| e.addr == a && e.seq <= f.at_seq.saturating_add(1)).filter(|e| !matches!(e.kind, EvKind::RecvWait { .. })).map(fmt_ev).collect();
                let start = v.len().saturating_sub(20);
                rep.violation(&f.sig, f.what, json!({"scenario": desc, "connection": a, "trace": v[start..].to_vec()}))
            }
        }
    }
    rep
}
