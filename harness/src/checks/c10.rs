//! C10 — block requests tile each assigned piece exactly once; every accepted block is followed
//! by a further request while blocks remain; the piece completes exactly when the last
//! outstanding block arrives. Wire oracle in the simulation with a peer that answers in chosen
//! orders, duplicates and withholds blocks.

use crate::checks::c02::{addr, peer_id};
use crate::sim::peers::{handshake_msg, Hs};
use crate::sim::{disk_never, fmt_ev, run_sim, Behaviour, Entry, Ev, EvKind, Outcome, PeerIo, PeerSpec, SimCfg};
use crate::torrent::{distinct_content, Torrent};
use crate::util::{hash64, panic_site, Ctx, Report, Rng};
use crate::wire::{bitfield_bytes, tiling, Msg};
use rdest::verif::Snapshot;
use serde_json::{json, Value};
use std::collections::HashMap;
use std::rc::Rc;

#[derive(Clone, Debug)]
pub struct TilerCfg {
    pub id: [u8; 20],
    /// 0 in order, 1 newest first, 2 random
    pub order: u8,
    /// per mille: re-send an already answered block
    pub dup: u64,
    /// per mille per request: never answer it (until a possible re-request)
    pub withhold: u64,
    /// per mille per answer: first send a block with the right offset but fewer bytes (not an answer)
    pub short_first: u64,
    /// per mille per answer: send an Unchoke although not choking (a repeated Unchoke changes nothing)
    pub extra_unchoke: u64,
    pub latency_ms: (u64, u64),
    /// choke after this many answers (then unchoke after ms)
    pub choke_after: Option<(u64, u64)>,
    pub end_ms: u64,
}

pub fn tiler(cfg: TilerCfg) -> Behaviour {
    Box::new(move |mut io: PeerIo| Box::pin(async move {
        let t = io.torrent.clone();
        match io.recv_within(400_000).await { Ok(Some(Msg::Handshake { .. })) => (), _ => { io.close(); return; } }
        if let Some(h) = handshake_msg(&io, &Hs::Normal, &cfg.id) { if !io.send(&h).await { return; } }
        if !io.send(&Msg::Bitfield(bitfield_bytes(&vec![true; t.n()]))).await { return; }
        if !io.send(&Msg::Unchoke).await { return; }
        let mut pending: Vec<(u32, u32, u32, u64)> = vec![]; // + due time
        let mut answered: Vec<(u32, u32, u32)> = vec![];
        let mut n_answers = 0u64;
        let mut choke_done = false;
        let mut choking_until: Option<u64> = None;
        loop {
            let now = io.log.now_ms();
            if now >= cfg.end_ms { io.close(); return; }
            if let Some(u) = choking_until {
                if now >= u { choking_until = None; if !io.send(&Msg::Unchoke).await { return; } }
            }
            // answer what is due
            let due: Vec<usize> = pending.iter().enumerate().filter(|(_, p)| p.3 <= now).map(|(k, _)| k).collect();
            if !due.is_empty() && choking_until.is_none() {
                let k = match cfg.order { 0 => due[0], 1 => *due.last().unwrap(), _ => *io.rng.pick(&due) };
                let (i, b, l, _) = pending.remove(k);
                let iu = i as usize;
                if iu < t.n() && (b as usize + l as usize) <= t.piece_len_of(iu) {
                    let data = t.piece(iu)[b as usize..(b + l) as usize].to_vec();
                    if l > 1 && io.rng.below(1000) < cfg.short_first {
                        let cut = 1 + io.rng.below(l as u64 - 1) as usize;
                        if !io.send(&Msg::Piece(i, b, data[..cut].to_vec())).await { return; }
                        // give the client time to react to it on its own
                        let until = io.log.now_ms() + 20;
                        while io.log.now_ms() < until { if let Ok(None) = io.recv_within(until - io.log.now_ms()).await { return; } }
                    }
                    if io.rng.below(1000) < cfg.extra_unchoke {
                        if !io.send(&Msg::Unchoke).await { return; }
                        let until = io.log.now_ms() + 10;
                        while io.log.now_ms() < until { match io.recv_within(until - io.log.now_ms()).await { Ok(None) => return, Ok(Some(Msg::Request(ri, rb, rl))) => { let lat = io.rng.range(cfg.latency_ms.0, cfg.latency_ms.1).max(5); pending.push((ri, rb, rl, io.log.now_ms() + lat)); } _ => () } }
                    }
                    if !io.send(&Msg::Piece(i, b, data.clone())).await { return; }
                    answered.push((i, b, l));
                    n_answers += 1;
                    if io.rng.below(1000) < cfg.dup {
                        let (di, db, dl) = *io.rng.pick(&answered);
                        let d = t.piece(di as usize)[db as usize..(db + dl) as usize].to_vec();
                        if !io.send(&Msg::Piece(di, db, d)).await { return; }
                    }
                    if let (Some((after, ms)), false) = (cfg.choke_after, choke_done) {
                        if n_answers >= after {
                            choke_done = true;
                            if !io.send(&Msg::Choke).await { return; }
                            pending.clear(); // a choking peer drops what was requested
                            answered.clear();
                            choking_until = Some(io.log.now_ms() + ms);
                        }
                    }
                }
                continue;
            }
            let next = pending.iter().map(|p| p.3).min().unwrap_or(u64::MAX).min(choking_until.unwrap_or(u64::MAX)).min(cfg.end_ms);
            match io.recv_within(next.saturating_sub(now).max(1)).await {
                Err(()) => continue,
                Ok(None) => return,
                Ok(Some(Msg::Request(i, b, l))) => {
                    if choking_until.is_some() { continue; }
                    // duplicates are only ever re-sent within the current assignment: a stale block
                    // of an earlier assignment of the same piece could legitimately be accepted as
                    // the answer to a request that is logged after it, which the oracle cannot see
                    if b == 0 { answered.clear(); }
                    if io.rng.below(1000) < cfg.withhold { io.log.note(&io.addr, format!("withholding ({},{})", i, b)); continue; }
                    // the first answer of an epoch always waits a little so that the up-front
                    // requests are observable
                    let lat = io.rng.range(cfg.latency_ms.0, cfg.latency_ms.1).max(5);
                    pending.push((i, b, l, io.log.now_ms() + lat));
                }
                Ok(Some(_)) => (),
            }
        }
    }))
}

pub struct Finding { pub sig: String, pub what: String, pub at_seq: u64 }

struct Epoch {
    piece: usize,
    tiles: Vec<(u32, u32)>,
    sent: usize,
    /// tile index -> answered (accepted) by a PeerSent event
    answered: Vec<bool>,
    outstanding: Vec<usize>,
    done: bool,
    /// the client gave the piece up (another connection completed it first)
    cancelled: bool,
    /// tile has a block that the peer sent *before* this epoch began (an earlier assignment of the
    /// same piece): it may still have been in flight and legitimately answer a request of this epoch
    pre: Vec<bool>,
    start_seq: u64,
    last_answer_ms: u64,
    /// tile index -> requested in this epoch
    requested: Vec<bool>,
    /// the peer choked (or the client cancelled) since the epoch began: the client may start over
    interrupted: bool,
    /// requests that were out when the first answer of the epoch arrived (the client's pipeline depth)
    depth: Option<usize>,
}

pub fn check_tiling(t: &Torrent, o: &Outcome, a: &str, stats: &mut HashMap<&'static str, u64>) -> Option<Finding> {
    let mut ep: Option<Epoch> = None;
    let mut snap: Option<Rc<Snapshot>> = None;
    let mut closed = false;
    for e in &o.events {
        if let EvKind::Mgr { kind, after, .. } = &e.kind {
            if *kind == "PieceDone" && e.addr == a {
                match ep.as_mut() {
                    Some(x) if !x.done => {
                        if x.answered.iter().zip(x.pre.iter()).any(|(b, p)| !*b && !*p) {
                            let missing: Vec<&(u32, u32)> = x.tiles.iter().zip(x.answered.iter()).filter(|(_, a)| !**a).map(|(t, _)| t).collect();
                            return Some(Finding { sig: "C10:completed-before-last-block".into(), what: format!("piece {} reported complete while blocks {:?} were never answered", x.piece, missing), at_seq: e.seq });
                        }
                        x.done = true;
                        *stats.entry("pieces_completed").or_default() += 1;
                    }
                    _ => return Some(Finding { sig: "C10:completion-without-epoch".into(), what: "a piece was reported complete although no tiling was in progress".into(), at_seq: e.seq }),
                }
            }
            if *kind == "PieceCancel" && e.addr == a { if let Some(x) = ep.as_mut() { if !x.done { x.cancelled = true; } } }
            // the client has taken note of a Choke: whatever it had asked for is void, it starts over
            if *kind == "RecvChoke" && e.addr == a { if let Some(x) = ep.as_mut() { if !x.done { x.interrupted = true; x.outstanding.clear(); } } }
            if *kind == "KillReq" && e.addr == a {
                closed = true;
                if let EvKind::Mgr { text, .. } = &e.kind {
                    // this peer only ever sends true bytes of the piece under their true offsets
                    if text.to_lowercase().contains("hash mismatch") {
                        let st = ep.as_ref().map(|x| format!("piece {}: {} of {} blocks answered", x.piece, x.answered.iter().filter(|b| **b).count(), x.tiles.len())).unwrap_or_default();
                        let early = ep.as_ref().map(|x| x.answered.iter().zip(x.pre.iter()).any(|(b, p)| !*b && !*p)).unwrap_or(false);
                        return Some(Finding { sig: if early { "C10:completed-before-last-block".into() } else { "C10:piece-assembled-wrongly".into() }, what: format!("the client judged a piece complete and found its hash wrong although the peer sent only true data ({})", st), at_seq: e.seq });
                    }
                }
            }
            snap = Some(after.clone());
            continue;
        }
        if e.addr != a { continue; }
        match &e.kind {
            EvKind::Send { msg: Msg::Request(i, b, l), .. } => {
                *stats.entry("requests_checked").or_default() += 1;
                let iu = *i as usize;
                if iu >= t.n() {
                    return Some(Finding { sig: "C10:request-index-out-of-range".into(), what: format!("Request({},{},{})", i, b, l), at_seq: e.seq });
                }
                if *l as usize > 16384 {
                    return Some(Finding { sig: "C10:request-longer-than-16KiB".into(), what: format!("Request({},{},{})", i, b, l), at_seq: e.seq });
                }
                // Which assignment does this request belong to? A request for another piece, or for a
                // tile that was already requested after the peer choked / the piece was cancelled or
                // finished, opens a new one (the client starts over); nothing is assumed about the
                // order in which the tiles of a piece are asked for.
                let tiles = tiling(t.piece_len_of(iu));
                let tile_no = tiles.iter().position(|tl| *tl == (*b, *l));
                let fresh = match &ep {
                    None => true,
                    // another piece: the manager has re-assigned this peer (checked just below: the
                    // request must name the piece the manager assigns now); how the previous assignment
                    // ended - cancel frames, a silent re-assignment - is the client's business
                    Some(x) if x.piece != iu => true,
                    Some(x) => match tile_no { Some(k) if x.requested[k] => x.done || x.cancelled || x.interrupted, _ => false },
                };
                if fresh {
                    if let Some(x) = &ep {
                        *stats.entry(if x.done { "epochs_completed" } else { "epochs_abandoned" }).or_default() += 1;
                    }
                    let assigned = snap.as_ref().and_then(|s| s.peers.iter().find(|p| p.addr == a)).and_then(|p| p.piece_index);
                    // the manager's reply can reach the task a moment before the manager's event is
                    // logged (it may still be writing its log line): the event of this peer that
                    // follows counts as well
                    let assigned_next = o.events.iter().filter(|x| x.seq > e.seq && x.addr == a).find_map(|x| match &x.kind { EvKind::Mgr { after, .. } => Some(after.peers.iter().find(|p| p.addr == a).and_then(|p| p.piece_index)), _ => None }).flatten();
                    // ... and so does any assignment of the last 5 s of virtual time: between the
                    // manager's decision and the task's write another connection may have finished
                    // the piece and the manager may have withdrawn the assignment again
                    let assigned_recently = o.events.iter().rev().skip_while(|x| x.seq >= e.seq).take_while(|x| x.ms + 5_000 >= e.ms).any(|x| match &x.kind { EvKind::Mgr { after, .. } => after.peers.iter().any(|p| p.addr == a && p.piece_index == Some(iu)), _ => false });
                    if assigned != Some(iu) && assigned_next != Some(iu) && !assigned_recently {
                        return Some(Finding { sig: "C10:request-for-unassigned-piece".into(), what: format!("Request({},{},{}) although the manager assigned {:?} to this peer", i, b, l, assigned), at_seq: e.seq });
                    }
                    let nt = tiles.len();
                    let mut pre = vec![false; nt];
                    for old in o.events.iter().take_while(|x| x.seq < e.seq) {
                        if old.addr == a && old.conn == e.conn {
                            if let EvKind::PeerSent { msg: Some(Msg::Piece(pi, pb, pd)), .. } = &old.kind {
                                if *pi as usize == iu { if let Some(k) = tiles.iter().position(|tl| *tl == (*pb, pd.len() as u32)) { pre[k] = true; } }
                            }
                        }
                    }
                    if pre.iter().any(|b| *b) { *stats.entry("epochs_with_possibly_inflight_blocks").or_default() += 1; }
                    ep = Some(Epoch { piece: iu, tiles: tiles.clone(), sent: 0, answered: vec![false; nt], outstanding: vec![], done: false, cancelled: false, pre, start_seq: e.seq, last_answer_ms: 0, requested: vec![false; nt], interrupted: false, depth: None });
                    *stats.entry("epochs").or_default() += 1;
                }
                let x = ep.as_mut().unwrap();
                let k = match tile_no {
                    Some(k) => k,
                    None => return Some(Finding { sig: "C10:request-not-a-tile".into(), what: format!("Request({},{},{}) is not one of the blocks {:?} that tile a {}-byte piece", i, b, l, x.tiles, t.piece_len_of(iu)), at_seq: e.seq }),
                };
                if x.requested[k] {
                    return Some(Finding { sig: "C10:block-requested-twice".into(), what: format!("Request({},{},{}) repeated within one assignment of the piece ({} of {} tiles requested so far)", i, b, l, x.sent, x.tiles.len()), at_seq: e.seq });
                }
                x.requested[k] = true;
                x.outstanding.push(k);
                x.sent += 1;
            }
            EvKind::PeerSent { msg: Some(Msg::Piece(i, b, d)), .. } => {
                if let Some(x) = ep.as_mut() {
                    if x.piece == *i as usize && !x.done {
                        if let Some(pos) = x.outstanding.iter().position(|k| x.tiles[*k] == (*b, d.len() as u32)) {
                            let k = x.outstanding.remove(pos);
                            // first accepted answer of the epoch: the up-front requests are all out
                            // (the tiler waits >= 5 ms of virtual time before answering); their number
                            // is the client's pipeline depth, which the property leaves open
                            if !x.answered.iter().any(|b| *b) && !x.pre.iter().any(|b| *b) {
                                x.depth = Some(x.sent);
                                *stats.entry("upfront_checked").or_default() += 1;
                            }
                            x.answered[k] = true;
                            x.last_answer_ms = e.ms;
                        }
                    }
                }
            }
            EvKind::Send { msg: Msg::Cancel(i, _, _), .. } => {
                if let Some(x) = ep.as_mut() { if x.piece == *i as usize && !x.done { x.cancelled = true; x.interrupted = true; x.outstanding.clear(); *stats.entry("epochs_cancelled").or_default() += 1; } }
            }
            EvKind::PeerSent { msg: Some(Msg::Choke), .. } => {
                // a choke ends the epoch for the oracle: the client will start over after Unchoke
                if let Some(x) = ep.as_mut() { if !x.done { x.outstanding.clear(); x.interrupted = true; } }
            }
            EvKind::PeerSawClose | EvKind::PeerClosed => closed = true,
            _ => (),
        }
    }
    // quiescent end: a piece the manager assigned to this (unchoking, connected) peer is asked for
    if !closed {
        let mut assigned_at: Option<(u64, u64, usize)> = None; // (seq, ms, piece) of the event that made the final assignment
        let mut cur: Option<usize> = None;
        for (e, _, after) in o.mgr() {
            let pi = after.peers.iter().find(|p| p.addr == a).and_then(|p| if p.choked { None } else { p.piece_index });
            if pi != cur { cur = pi; assigned_at = pi.map(|i| (e.seq, e.ms, i)); }
        }
        if let Some((seq, ms, i)) = assigned_at {
            let asked = o.events.iter().any(|e| e.addr == a && e.seq > seq && matches!(&e.kind, EvKind::Send { msg: Msg::Request(ri, _, _), .. } if *ri as usize == i));
            let in_progress = ep.as_ref().map(|x| x.piece == i && !x.done).unwrap_or(false);
            if ms + 2_000 < o.end_ms {
                *stats.entry("final_assignments_checked").or_default() += 1;
                if !asked && !in_progress {
                    return Some(Finding { sig: "C10:assigned-piece-never-requested".into(), what: format!("piece {} ({} bytes) was assigned to {} at t={} ms; no request for it was sent in the remaining {} ms", i, t.piece_len_of(i), a, ms, o.end_ms - ms), at_seq: seq });
                }
            }
        }
    }
    // quiescent end: an assignment with blocks still missing has something requested (a request the
    // peer dropped when it choked counts as not requested: the client has to ask again)
    if let Some(x) = &ep {
        let choked_now = snap.as_ref().and_then(|s| s.peers.iter().find(|p| p.addr == a)).map(|p| p.choked).unwrap_or(true);
        let quiet = x.last_answer_ms + 2_000 < o.end_ms && o.events.iter().rev().find(|e| e.addr == a && matches!(e.kind, EvKind::PeerSent { .. } | EvKind::Send { .. })).map(|e| e.ms + 2_000 < o.end_ms).unwrap_or(true);
        let still_assigned = snap.as_ref().and_then(|s| s.peers.iter().find(|p| p.addr == a)).map(|p| p.piece_index == Some(x.piece)).unwrap_or(false);
        if !closed && !x.done && !x.cancelled && !choked_now && quiet && still_assigned {
            let missing: Vec<(u32, u32)> = (0..x.tiles.len()).filter(|k| !x.answered[*k] && !x.pre[*k]).map(|k| x.tiles[k]).collect();
            *stats.entry("quiescent_assignments_checked_for_stall").or_default() += 1;
            if !missing.is_empty() && x.outstanding.is_empty() {
                return Some(Finding { sig: "C10:blocks-missing-but-nothing-requested".into(), what: format!("piece {} is assigned to {} (which is not choking), blocks {:?} were never received and no request for any of them is outstanding: the piece can never complete", x.piece, a, missing), at_seq: x.start_seq });
            }
        }
    }
    // quiescent end: every accepted block was followed by a further request while tiles remained,
    // and a fully answered piece was completed
    if let Some(x) = &ep {
        let choked_now = snap.as_ref().and_then(|s| s.peers.iter().find(|p| p.addr == a)).map(|p| p.choked).unwrap_or(true);
        if !closed && !x.done && !x.cancelled && !x.pre.iter().any(|b| *b) && !choked_now && x.last_answer_ms + 2_000 < o.end_ms && o.events.iter().rev().find(|e| e.addr == a && matches!(e.kind, EvKind::PeerSent { .. })).map(|e| e.ms + 2_000 < o.end_ms).unwrap_or(true) {
            let accepted = x.answered.iter().filter(|b| **b).count();
            // every accepted block was followed by a further request (on top of the up-front ones)
            let want = match x.depth { Some(d) => x.tiles.len().min(d + accepted), None => 1 };
            *stats.entry("quiescent_epochs_checked").or_default() += 1;
            if x.sent < want {
                return Some(Finding { sig: "C10:accepted-block-not-followed-by-request".into(), what: format!("piece {} ({} blocks): {} requested up front, {} answered, {} requested in all at the quiescent end (at least {} expected)", x.piece, x.tiles.len(), x.depth.unwrap_or(0), accepted, x.sent, want), at_seq: x.start_seq });
            }
            if accepted == x.tiles.len() {
                return Some(Finding { sig: "C10:not-completed-after-last-block".into(), what: format!("all {} blocks of piece {} were answered but the piece was never reported complete", x.tiles.len(), x.piece), at_seq: x.start_seq });
            }
        }
    }
    None
}

pub struct Scenario { pub cfg: SimCfg, pub desc: Value }

/// Family: a long, fast download (megabytes per 10 s statistics window, tens of seconds): whatever
/// the client learns about the peer's speed, the blocks stay at most 16 KiB and keep tiling.
pub fn gen_long_fast(r: &mut Rng, seed: u64) -> Scenario {
    let piece_len = 65536usize;
    let n = r.range(50, 90) as usize;
    let total = (n - 1) * piece_len + r.range(1, piece_len as u64) as usize;
    let content = distinct_content(r, total, piece_len);
    let torrent = Rc::new(Torrent::build(piece_len, "out.bin", vec![("out.bin".into(), total)], true, content, "http://sim.invalid/announce"));
    let end_ms = 70_000;
    let c = TilerCfg { id: peer_id(0), order: r.below(3) as u8, dup: 0, withhold: 0, short_first: 0, extra_unchoke: 0, latency_ms: (100, 220), choke_after: None, end_ms };
    let desc = json!({"seed": seed, "family": "long-fast-download", "piece_length": piece_len, "pieces": n, "blocks_per_piece": 4, "peer": {"latency_ms": [100, 220]}});
    let c2 = c.clone();
    let peers = vec![PeerSpec { addr: addr(0), id: peer_id(0), entry: Entry::Dialled { from_announce: 0 }, make: Box::new(move |nth| if nth > 1 { None } else { Some(tiler(c2.clone())) }), chunk: 0, pipe: 1 << 20 }];
    Scenario { cfg: SimCfg { torrent, peers, tracker: vec![], failpoints: None, max_virtual_ms: end_ms - 1000, stop_on_extract: true, linger_ms: 100, disk_on: disk_never, seed, pre: None, tracker_fn: None, driver: None }, desc }
}

pub fn gen_scenario(r: &mut Rng, seed: u64) -> Scenario {
    if r.chance(1, 25) { return gen_long_fast(r, seed); }
    let piece_len: usize = match r.below(10) { 0 => 1, 1 => 16383, 2 => 16384, 3 => 16385, 4 => 32768, 5 => 40000, 6 => 32767, 7 => 49152, 8 => r.range(1, 70000) as usize, _ => 3 * 16384 + r.range(0, 2) as usize };
    let n = r.range(1, 6) as usize;
    let last = match r.below(5) { 0 => 1, 1 => piece_len, 2 => (piece_len % 16384).max(1), 3 => piece_len.saturating_sub(1).max(1), _ => r.range(1, piece_len as u64) as usize };
    let total = (n - 1) * piece_len + last;
    let content = distinct_content(r, total, piece_len);
    let torrent = Rc::new(Torrent::build(piece_len, "out.bin", vec![("out.bin".into(), total)], true, content, "http://sim.invalid/announce"));
    let end_ms = 40_000;
    let c = TilerCfg { id: peer_id(0), order: r.below(3) as u8, dup: *r.pick(&[0u64, 100, 400]), withhold: *r.pick(&[0u64, 0, 50, 200]), short_first: *r.pick(&[0u64, 0, 100, 400]), extra_unchoke: *r.pick(&[0u64, 0, 0, 150, 500]), latency_ms: match r.below(3) { 0 => (5, 5), 1 => (5, 60), _ => (20, 800) }, choke_after: if r.chance(1, 3) { Some((r.range(1, 5), r.range(10, 3000))) } else { None }, end_ms };
    let order_name = ["in order", "newest first", "random"][c.order as usize];
    let desc = json!({"seed": seed, "piece_length": piece_len, "pieces": n, "last_piece_length": last, "blocks_per_piece": tiling(piece_len).len(), "peer": {"answer_order": order_name, "dup_permille": c.dup, "withhold_permille": c.withhold, "short_block_first_permille": c.short_first, "extra_unchoke_permille": c.extra_unchoke, "latency_ms": [c.latency_ms.0, c.latency_ms.1], "choke_after(answers,ms)": format!("{:?}", c.choke_after)}});
    let c2 = c.clone();
    let rival = r.chance(1, 3);
    let mut peers = vec![PeerSpec { addr: addr(0), id: peer_id(0), entry: Entry::Dialled { from_announce: 0 }, make: Box::new(move |nth| if nth > 1 { None } else { Some(tiler(c2.clone())) }), chunk: *r.pick(&[0usize, 0, 1, 1000]), pipe: 1 << 20 }];
    if rival {
        // a second, ordinary seeder: in end game both are asked for the same piece and the loser is
        // cancelled and re-assigned in the middle of a piece
        let mut s = crate::sim::peers::SeederCfg::honest(peer_id(1), vec![true; n]);
        s.unchoke_after_ms = Some(r.range(0, 300));
        s.latency_ms = match r.below(3) { 0 => (0, 5), 1 => (5, 100), _ => (50, 900) };
        s.idle_close_ms = 100_000;
        let s2 = s.clone();
        peers.push(PeerSpec { addr: addr(1), id: peer_id(1), entry: Entry::Dialled { from_announce: 0 }, make: Box::new(move |nth| if nth > 1 { None } else { Some(crate::sim::peers::seeder(s2.clone())) }), chunk: 0, pipe: 1 << 20 });
    }
    let mut desc = desc;
    desc["rival_seeder"] = json!(rival);
    Scenario { cfg: SimCfg { torrent, peers, tracker: vec![], failpoints: if r.chance(1, 3) { Some(r.next()) } else { None }, max_virtual_ms: end_ms - 1000, stop_on_extract: true, linger_ms: 100, disk_on: disk_never, seed, pre: None, tracker_fn: None, driver: None }, desc }
}

pub fn run(ctx: &Ctx) -> Report {
    let mut rep = Report::new();
    rep.need("requests_checked", 5_000);
    rep.need("pieces_completed", 1_000);
    rep.need("upfront_checked", 1_000);
    rep.need("quiescent_epochs_checked", 20);
    let mut r = ctx.rng("c10");
    let n = ctx.count(4_000, 60_000);
    for k in 0..n {
        let seed = ctx.scenario_seed(r.next());
        let mut sr = Rng::new(seed);
        let sc = gen_scenario(&mut sr, seed);
        let t = sc.cfg.torrent.clone();
        let desc = sc.desc.clone();
        rep.evaluations += 1;
        let o = run_sim(sc.cfg, &ctx.scratch, 120);
        if o.watchdog { rep.inconclusive(format!("watchdog (scenario seed {})", seed)); continue; }
        rep.distinct(&hash64(&(desc["piece_length"].to_string(), desc["last_piece_length"].to_string(), desc["peer"].to_string())));
        rep.set("piece_lengths_mod_16K", format!("{}", t.piece_len % 16384));
        if let Some(p) = o.panics.first() {
            rep.inconclusive(format!("a task panicked ({}): {}", panic_site(p), p));
            continue;
        }
        let mut stats = HashMap::new();
        let f = check_tiling(&t, &o, &addr(0), &mut stats);
        for (k2, v) in &stats { rep.count(k2, *v); }
        match f {
            None => { if k % 200 == 0 { rep.sample(json!({"scenario": desc, "observed": stats.iter().map(|(a, b)| (a.to_string(), *b)).collect::<HashMap<String, u64>>() })); } }
            Some(f) => {
                let v: Vec<&Ev> = o.events.iter().filter(|e| e.seq <= f.at_seq.saturating_add(1) || f.at_seq == 0).filter(|e| !matches!(&e.kind, EvKind::RecvWait { .. })).filter(|e| !matches!(&e.kind, EvKind::Mgr { kind, .. } if *kind == "SyncStats" || *kind == "Rotation")).collect();
                let start = v.len().saturating_sub(24);
                rep.violation(&f.sig, f.what, json!({"scenario": desc, "trace": v[start..].iter().map(|e| fmt_ev(e)).collect::<Vec<_>>()}))
            }
        }
    }
    rep
}
