//! C12 — no missing piece is ever withheld by a stale reservation; assignments are legal; the
//! manager never panics. Online invariants over the manager's state after every handled command,
//! with event sequences produced by real connection tasks driven by hostile personas.

use crate::checks::c02::{addr, interleaving_sig, peer_id};
use crate::sim::peers::{seeder, ChokeAct, Corrupt, Disc, SeederCfg};
use crate::sim::{disk_never, fmt_ev, fmt_status, run_sim, Entry, Ev, EvKind, Outcome, PeerSpec, SimCfg};
use crate::torrent::gen_sim_torrent;
use crate::util::{hash64, panic_site, Ctx, Report, Rng};
use rdest::verif::{Snapshot, Status};
use serde_json::{json, Value};
use std::collections::HashMap;
use std::rc::Rc;

pub struct Inv {
    pub sig: String,
    pub what: String,
    pub at_seq: u64,
}

/// Ground truth kept by the harness: is `addr` choking the client at time `t`, and has it been
/// for at least a second (so that nothing about it can still be in flight)? `None` = unknown.
fn actually_choking(truth: &std::collections::HashMap<String, Vec<(u64, u32, Option<bool>)>>, addr: &str, t: u64) -> Option<bool> {
    let v = truth.get(addr)?;
    let conn = v.iter().filter(|x| x.0 <= t).map(|x| x.1).max()?;
    let evs: Vec<&(u64, u32, Option<bool>)> = v.iter().filter(|x| x.1 == conn && x.0 <= t).collect();
    let start = evs.first()?.0;
    match evs.iter().rev().find(|x| x.2.is_some()) {
        Some((_, _, Some(false))) => Some(false),
        Some((ms, _, Some(true))) => if *ms + 1_000 <= t { Some(true) } else { None },
        _ => if start + 1_000 <= t { Some(true) } else { None },
    }
}

/// I1..I3 over the manager log. Returns the first violation.
pub fn check_invariants(o: &Outcome) -> Option<Inv> {
    // what every scripted peer really sent: (ms, connection, Some(choke?)) per address
    let mut truth: std::collections::HashMap<String, Vec<(u64, u32, Option<bool>)>> = Default::default();
    for e in &o.events {
        if e.conn == 0 { continue; }
        let st = match &e.kind { EvKind::PeerSent { msg: Some(crate::wire::Msg::Choke), .. } => Some(true), EvKind::PeerSent { msg: Some(crate::wire::Msg::Unchoke), .. } => Some(false), EvKind::PeerSent { .. } | EvKind::PeerGot { .. } => None, _ => continue };
        truth.entry(e.addr.clone()).or_default().push((e.ms, e.conn, st));
    }
    let mut prev: Option<Rc<Snapshot>> = None;
    for e in &o.events {
        let (kind, after) = match &e.kind { EvKind::Mgr { kind, after, .. } => (*kind, after), _ => continue };
        // I1: Have is absorbing
        if let Some(p) = &prev {
            for (i, s) in p.statuses.iter().enumerate() {
                if *s == Status::Have && after.statuses[i] != Status::Have {
                    return Some(Inv { sig: "C12:owned-piece-lost".into(), what: format!("piece {} was owned and is {:?} after {} {}", i, after.statuses[i], kind, e.addr), at_seq: e.seq });
                }
            }
        }
        // I2: Reserved(n) => some connected peer that does not choke us has been asked for it
        for (i, s) in after.statuses.iter().enumerate() {
            if let Status::Reserved(n) = s {
                if *n == 0 {
                    return Some(Inv { sig: "C12:reserved-zero".into(), what: format!("piece {} is Reserved(0) after {} {}", i, kind, e.addr), at_seq: e.seq });
                }
                let holder = after.peers.iter().any(|p| p.piece_index == Some(i) && !p.choked);
                // the manager may believe a peer is not choking us although it is (and has been for
                // a second): then nobody that can serve the piece has been asked for it
                if holder && after.peers.iter().filter(|p| p.piece_index == Some(i) && !p.choked).all(|p| actually_choking(&truth, &p.addr, e.ms) == Some(true)) {
                    return Some(Inv {
                        sig: "C12:stale-reservation:holder-actually-chokes-us".into(),
                        what: format!("piece {} is {:?} and assigned only to peer(s) {:?} that the manager believes unchoked, but whose last choke-state message (sent more than 1 s earlier) is Choke or that never unchoked, after {} {}", i, s, after.peers.iter().filter(|p| p.piece_index == Some(i)).map(|p| p.addr.clone()).collect::<Vec<_>>(), kind, e.addr),
                        at_seq: e.seq,
                    });
                }
                if !holder {
                    let why = match (kind, prev.as_ref().and_then(|p| p.peers.iter().find(|x| x.addr == e.addr)).map(|x| (x.choked, x.piece_index))) {
                        ("RecvUnchoke", Some((false, Some(_)))) => "unchoke-while-unchoked",
                        ("RecvUnchoke", _) => "unchoke",
                        ("PieceDone", Some((true, _))) | ("PieceCancel", Some((true, _))) => "piece-finished-while-choked",
                        ("PieceDone", _) | ("PieceCancel", _) => "piece-finished",
                        ("RecvChoke", _) => "choke",
                        ("KillReq", _) => "peer-gone",
                        ("RecvHave", _) => "have",
                        _ => "other",
                    };
                    return Some(Inv {
                        sig: format!("C12:stale-reservation:{}", why),
                        what: format!("piece {} is {:?} but no connected, unchoking peer is assigned to it, after {} {} (statuses {})", i, s, kind, e.addr, fmt_status(&after.statuses)),
                        at_seq: e.seq,
                    });
                }
            }
        }
        // I3: a (re)assignment names a piece the peer advertised and the client still lacks
        if matches!(kind, "RecvUnchoke" | "PieceDone" | "PieceCancel" | "RecvHave") {
            if let Some(p) = after.peers.iter().find(|p| p.addr == e.addr) {
                let before = prev.as_ref().and_then(|s| s.peers.iter().find(|x| x.addr == p.addr)).and_then(|x| x.piece_index);
                if let Some(i) = p.piece_index {
                    // a new request was handed out: the assignment changed, or the peer really went from
                    // choking to not choking (a repeated Unchoke hands out nothing)
                    let was_choked = prev.as_ref().and_then(|s| s.peers.iter().find(|x| x.addr == p.addr)).map(|x| x.choked).unwrap_or(true);
                    if p.piece_index != before || (kind == "RecvUnchoke" && was_choked) {
                        if !p.pieces[i] {
                            return Some(Inv { sig: "C12:assigned-piece-not-advertised".into(), what: format!("{} was asked for piece {} it never advertised (after {})", p.addr, i, kind), at_seq: e.seq });
                        }
                        let owned_before = prev.as_ref().map(|s| s.statuses[i] == Status::Have).unwrap_or(false);
                        if owned_before && p.piece_index != before {
                            return Some(Inv { sig: "C12:assigned-owned-piece".into(), what: format!("{} was asked for piece {} which the client already owns (after {})", p.addr, i, kind), at_seq: e.seq });
                        }
                    }
                }
            }
        }
        prev = Some(after.clone());
    }
    None
}

pub fn gen_hostile_seeder(r: &mut Rng, id: [u8; 20], n: usize, incoming: bool) -> (SeederCfg, &'static str) {
    let have: Vec<bool> = match r.below(4) {
        0 => vec![true; n],
        // sparse: the few pieces this peer has are likely to be reserved by somebody else
        1 => { let mut h: Vec<bool> = (0..n).map(|_| r.chance(1, 6)).collect(); let k = r.usize(n); h[k] = true; h }
        _ => (0..n).map(|_| r.chance(3, 4)).collect(),
    };
    let mut c = SeederCfg::honest(id, have);
    c.incoming = incoming;
    c.latency_ms = match r.below(3) { 0 => (0, 0), 1 => (0, 30), _ => (5, 300) };
    c.unchoke_after_ms = match r.below(3) { 0 => Some(0), 1 => Some(r.range(1, 2000)), _ => None };
    c.idle_close_ms = 15_000 + r.below(20_000);
    let persona = match r.below(6) {
        0 | 1 => {
            // Flapper: choke/unchoke storms incl. redundant ones, answers while choking, Have spam
            let mut at = 0;
            for _ in 0..r.range(2, 8) {
                at += r.below(4);
                let act = match r.below(5) { 0 => ChokeAct::DoubleUnchoke, 1 => ChokeAct::DoubleChoke, 2 => ChokeAct::Unchoke, _ => ChokeAct::Choke };
                c.choke_plan.push((at, act, r.range(1, 3000)));
            }
            c.serve_while_choking = r.chance(2, 3);
            for _ in 0..r.below(5) { c.late_haves.push((r.below(6), r.usize(n))); }
            c.late_haves.sort();
            // re-sent Bitfield, pieces revealed only later by Have
            if r.chance(1, 2) {
                c.have = vec![true; n];
                c.initial_advert = Some((0..n).map(|_| r.chance(1, 4)).collect());
                for _ in 0..r.range(1, 3) { c.rebitfield_at.push(r.below(5)); }
                c.rebitfield_at.sort();
                c.rebitfield_drops = r.chance(1, 2);
            }
            "flapper"
        }
        2 => {
            c.corrupt = Corrupt { flip: 150, wrong_offset: 30, wrong_index: 30, short: 30, long: 30, dup: 60, unrequested: 60, overlap: 30, prefer_completing: true };
            "corruptor"
        }
        3 => {
            c.disc = Some(match r.below(4) { 0 => Disc::AfterBlocks(r.range(1, 5)), 1 => Disc::OnRequest(r.range(1, 5)), 2 => Disc::MidFrame(r.below(4)), _ => Disc::AtMs(r.range(0, 3000)) });
            "disconnector"
        }
        4 => {
            c.choke_plan.push((r.below(3), ChokeAct::Choke, r.range(1, 4000)));
            c.serve_while_choking = true;
            c.haves_instead_of_bitfield = r.chance(1, 2);
            "choke-then-data"
        }
        _ => "honest",
    };
    (c, persona)
}

pub struct Scenario { pub cfg: SimCfg, pub desc: Value }

/// Targeted family: a peer chokes us, the piece it was serving gets re-assigned to somebody else,
/// it unchokes (nothing left to ask it for) and only then delivers the blocks requested earlier.
pub fn gen_late_data_scenario(r: &mut Rng, seed: u64) -> Scenario {
    let n = r.range(12, 16) as usize;
    let blocks = r.range(2, 3) as usize;
    let piece_len = 16384 * (blocks - 1) + r.range(1, 16384) as usize;
    let total = (n - 1) * piece_len + r.range(1, piece_len as u64) as usize;
    let content = crate::torrent::distinct_content(r, total, piece_len);
    let torrent = Rc::new(crate::torrent::Torrent::build(piece_len, "out.bin", vec![("out.bin".into(), total)], true, content, "http://sim.invalid/announce"));
    let target = r.usize(n - 1); // not the (shorter) last piece
    let mut peers = vec![];
    let mut pdesc = vec![];
    let mut add = |k: usize, c: SeederCfg, role: &str, pdesc: &mut Vec<Value>| {
        pdesc.push(json!({"addr": addr(k), "persona": role, "unchoke_after_ms": c.unchoke_after_ms, "timed": format!("{:?}", c.timed), "latency_ms": [c.latency_ms.0, c.latency_ms.1]}));
        let c2 = c.clone();
        peers.push(PeerSpec { addr: addr(k), id: peer_id(k), entry: Entry::Dialled { from_announce: 0 }, make: Box::new(move |nth| if nth > 1 { None } else { Some(seeder(c2.clone())) }), chunk: 0, pipe: 1 << 20 });
    };
    // A: has only the target piece, answers very late
    let mut have_a = vec![false; n];
    have_a[target] = true;
    let mut a = SeederCfg::honest(peer_id(0), have_a);
    a.unchoke_after_ms = Some(0);
    let t_choke = r.range(500, 1500);
    let t_unchoke = t_choke + r.range(1500, 3000);
    a.timed = vec![(t_choke, ChokeAct::Choke), (t_unchoke, ChokeAct::Unchoke)];
    a.latency_ms = (t_unchoke + 500, t_unchoke + 1500);
    a.idle_close_ms = 60_000;
    add(0, a, "late-answerer", &mut pdesc);
    // C: has everything but the target, never unchokes (only evens out availability)
    let mut have_c = vec![true; n];
    have_c[target] = false;
    let mut c = SeederCfg::honest(peer_id(1), have_c);
    c.unchoke_after_ms = Some(10_000_000);
    c.idle_close_ms = 60_000;
    add(1, c, "idle-holder", &mut pdesc);
    // B1..Bk: slow seeders that unchoke while A is choking us
    for k in 0..r.range(3, 5) as usize {
        let mut b = SeederCfg::honest(peer_id(2 + k), vec![true; n]);
        b.unchoke_after_ms = Some(t_choke + 50 + r.below(t_unchoke - t_choke - 100));
        b.latency_ms = (4000, 9000);
        b.idle_close_ms = 60_000;
        add(2 + k, b, "slow-seeder", &mut pdesc);
    }
    let desc = json!({"seed": seed, "family": "late-data-after-reassignment", "piece_length": piece_len, "pieces": n, "target_piece": target, "peers": pdesc});
    Scenario { cfg: SimCfg { torrent, peers, tracker: vec![], failpoints: None, max_virtual_ms: 60_000, stop_on_extract: true, linger_ms: 100, disk_on: disk_never, seed, pre: None, tracker_fn: None, driver: None }, desc }
}

/// Targeted family: a peer that advertised a single piece re-sends its Bitfield while that piece is
/// in flight (nothing else to ask it for) and then reveals further pieces with Have.
pub fn gen_rebitfield_scenario(r: &mut Rng, seed: u64) -> Scenario {
    let n = r.range(12, 16) as usize;
    let piece_len = 16384 * r.range(2, 3) as usize + r.range(1, 1000) as usize;
    let total = (n - 1) * piece_len + r.range(1, piece_len as u64) as usize;
    let content = crate::torrent::distinct_content(r, total, piece_len);
    let torrent = Rc::new(crate::torrent::Torrent::build(piece_len, "out.bin", vec![("out.bin".into(), total)], true, content, "http://sim.invalid/announce"));
    let x = r.usize(n - 1);
    let mut peers = vec![];
    let mut pdesc = vec![];
    let mut a = SeederCfg::honest(peer_id(0), vec![true; n]);
    let mut adv = vec![false; n];
    adv[x] = true;
    a.initial_advert = Some(adv);
    a.unchoke_after_ms = Some(0);
    a.latency_ms = (50, 300);
    a.rebitfield_at = vec![1];
    a.late_haves = (0..r.range(1, 4)).map(|k| (1 + k, r.usize(n))).collect();
    a.idle_close_ms = 60_000;
    pdesc.push(json!({"addr": addr(0), "persona": "re-sends Bitfield mid-piece, then reveals pieces by Have", "advertises_first": x, "late_haves": format!("{:?}", a.late_haves)}));
    let a2 = a.clone();
    peers.push(PeerSpec { addr: addr(0), id: peer_id(0), entry: Entry::Dialled { from_announce: 0 }, make: Box::new(move |nth| if nth > 1 { None } else { Some(seeder(a2.clone())) }), chunk: 0, pipe: 1 << 20 });
    let mut b = SeederCfg::honest(peer_id(1), vec![true; n]);
    b.unchoke_after_ms = Some(r.range(0, 2000));
    b.latency_ms = (200, 2000);
    b.idle_close_ms = 60_000;
    pdesc.push(json!({"addr": addr(1), "persona": "slow honest seeder"}));
    let b2 = b.clone();
    peers.push(PeerSpec { addr: addr(1), id: peer_id(1), entry: Entry::Dialled { from_announce: 0 }, make: Box::new(move |nth| if nth > 1 { None } else { Some(seeder(b2.clone())) }), chunk: 0, pipe: 1 << 20 });
    let desc = json!({"seed": seed, "family": "rebitfield-then-have", "piece_length": piece_len, "pieces": n, "peers": pdesc});
    Scenario { cfg: SimCfg { torrent, peers, tracker: vec![], failpoints: None, max_virtual_ms: 60_000, stop_on_extract: true, linger_ms: 100, disk_on: disk_never, seed, pre: None, tracker_fn: None, driver: None }, desc }
}

/// Targeted family: a peer with nothing to offer unchokes and chokes us while idle, and only then
/// reveals a piece by Have (and possibly unchokes again much later).
pub fn gen_idle_choke_then_have(r: &mut Rng, seed: u64) -> Scenario {
    let n = r.range(3, 16) as usize;
    let piece_len = match r.below(2) { 0 => r.range(100, 16000) as usize, _ => 16384 + r.range(1, 20000) as usize };
    let total = (n - 1) * piece_len + r.range(1, piece_len as u64) as usize;
    let content = crate::torrent::distinct_content(r, total, piece_len);
    let torrent = Rc::new(crate::torrent::Torrent::build(piece_len, "out.bin", vec![("out.bin".into(), total)], true, content, "http://sim.invalid/announce"));
    let mut peers = vec![];
    let mut pdesc = vec![];
    let mut a = SeederCfg::honest(peer_id(0), vec![true; n]);
    a.initial_advert = Some(vec![false; n]);
    a.unchoke_after_ms = Some(10_000_000); // only the timed actions below
    let t1 = r.range(50, 1500);
    let t2 = t1 + r.range(50, 1500);
    let t3 = t2 + r.range(50, 1500);
    a.timed = vec![(t1, ChokeAct::Unchoke), (t2, ChokeAct::Choke)];
    if r.chance(1, 2) { a.timed.push((t3 + r.range(2_500, 6_000), ChokeAct::Unchoke)); }
    a.timed_haves = vec![(t3, r.usize(n))];
    a.idle_close_ms = 30_000;
    pdesc.push(json!({"addr": addr(0), "persona": "idle peer: Unchoke, Choke, then its first Have", "timed": format!("{:?}", a.timed), "have_at_ms": t3}));
    let a2 = a.clone();
    peers.push(PeerSpec { addr: addr(0), id: peer_id(0), entry: if r.chance(1, 2) { Entry::Incoming { at_ms: r.range(0, 50) } } else { Entry::Dialled { from_announce: 0 } }, make: Box::new(move |nth| if nth > 1 { None } else { let mut c = a2.clone(); c.incoming = false; Some(seeder(c)) }), chunk: 0, pipe: 1 << 20 });
    if let Entry::Incoming { .. } = peers[0].entry { let mut c = a.clone(); c.incoming = true; peers[0].make = Box::new(move |nth| if nth > 1 { None } else { Some(seeder(c.clone())) }); }
    if r.chance(2, 3) {
        let mut b = SeederCfg::honest(peer_id(1), vec![true; n]);
        b.unchoke_after_ms = Some(r.range(0, 4000));
        b.latency_ms = (500, 4000);
        b.idle_close_ms = 30_000;
        pdesc.push(json!({"addr": addr(1), "persona": "slow honest seeder"}));
        let b2 = b.clone();
        peers.push(PeerSpec { addr: addr(1), id: peer_id(1), entry: Entry::Dialled { from_announce: 0 }, make: Box::new(move |nth| if nth > 1 { None } else { Some(seeder(b2.clone())) }), chunk: 0, pipe: 1 << 20 });
    }
    let desc = json!({"seed": seed, "family": "idle-choke-then-have", "piece_length": piece_len, "pieces": n, "peers": pdesc});
    Scenario { cfg: SimCfg { torrent, peers, tracker: vec![], failpoints: if r.chance(1, 2) { Some(r.next()) } else { None }, max_virtual_ms: 40_000, stop_on_extract: true, linger_ms: 100, disk_on: disk_never, seed, pre: None, tracker_fn: None, driver: None }, desc }
}

pub fn gen_scenario(r: &mut Rng, seed: u64) -> Scenario {
    if r.chance(1, 8) {
        return gen_late_data_scenario(r, seed);
    }
    if r.chance(1, 12) {
        return gen_idle_choke_then_have(r, seed);
    }
    if r.chance(1, 10) {
        return gen_rebitfield_scenario(r, seed);
    }
    let maxp = if r.chance(1, 2) { 30 } else { 9 };
    let small = r.chance(2, 3);
    let torrent = Rc::new(gen_sim_torrent(r, maxp, small));
    let n = torrent.n();
    let npeers = r.range(2, 5) as usize;
    let mut peers = vec![];
    let mut pdesc = vec![];
    // one scenario in six: two addresses present (and are announced with) the same peer id
    let shared_id = r.chance(1, 6);
    for k in 0..npeers {
        let incoming = r.chance(1, 5);
        let pid = if shared_id && k == 1 { peer_id(0) } else { peer_id(k) };
        let (c, persona) = gen_hostile_seeder(r, pid, n, incoming);
        pdesc.push(json!({"addr": addr(k), "persona": persona, "incoming": incoming, "choke_plan": format!("{:?}", c.choke_plan), "serve_while_choking": c.serve_while_choking, "disconnect": format!("{:?}", c.disc), "unchoke_after_ms": c.unchoke_after_ms, "late_haves": format!("{:?}", c.late_haves)}));
        let c2 = c.clone();
        peers.push(PeerSpec {
            addr: addr(k),
            id: pid,
            entry: if incoming { Entry::Incoming { at_ms: r.range(0, 3000) } } else { Entry::Dialled { from_announce: 0 } },
            make: Box::new(move |nth| if nth > 3 { None } else { Some(seeder(c2.clone())) }),
            chunk: *r.pick(&[0usize, 0, 1, 5, 1000]),
            pipe: 1 << 20,
        });
    }
    let failpoints = if r.chance(2, 3) { Some(r.next()) } else { None };
    let desc = json!({"seed": seed, "piece_length": torrent.piece_len, "pieces": n, "failpoints": failpoints.is_some(), "two_addresses_share_a_peer_id": shared_id, "peers": pdesc});
    Scenario { cfg: SimCfg { torrent, peers, tracker: vec![], failpoints, max_virtual_ms: 90_000, stop_on_extract: true, linger_ms: 100, disk_on: disk_never, seed, pre: None, tracker_fn: None, driver: None }, desc }
}

pub fn witness_trace(o: &Outcome, at_seq: u64) -> Vec<String> {
    let mgr: Vec<&Ev> = o.events.iter().filter(|e| e.seq <= at_seq && matches!(e.kind, EvKind::Mgr { .. } | EvKind::PeerSent { .. })).filter(|e| !matches!(&e.kind, EvKind::Mgr { kind, .. } if *kind == "SyncStats" || *kind == "Rotation")).collect();
    let start = mgr.len().saturating_sub(25);
    mgr[start..].iter().map(|e| fmt_ev(e)).collect()
}

pub fn run(ctx: &Ctx) -> Report {
    let mut rep = Report::new();
    rep.need("manager_events_checked", 20_000);
    rep.need("scenarios_with_reservation", 200);
    let mut r = ctx.rng("c12");
    let n = ctx.count(4_000, 100_000);
    for k in 0..n {
        let seed = ctx.scenario_seed(r.next());
        let mut sr = Rng::new(seed);
        // one in ten: the end-game family of C02 (two seeders, possibly finishing the same piece in
        // the same instant, one of them the sole holder of a piece it announces later)
        let (cfg, desc) = if sr.chance(1, 10) { let x = crate::checks::c02::gen_endgame_exclusive(&mut sr, seed); let mut c = x.cfg; c.max_virtual_ms = 120_000; (c, x.desc) } else { let x = gen_scenario(&mut sr, seed); (x.cfg, x.desc) };
        rep.evaluations += 1;
        let o = run_sim(cfg, &ctx.scratch, 120);
        if o.watchdog { rep.inconclusive(format!("watchdog (scenario seed {})", seed)); continue; }
        let nm = o.mgr().count() as u64;
        rep.count("manager_events_checked", nm);
        rep.distinct(&interleaving_sig(&o));
        // evidence: command-kind bigrams and abstract manager states seen
        let kinds: Vec<&str> = o.mgr().map(|(_, k, _)| k).filter(|k| *k != "SyncStats" && *k != "Rotation").collect();
        for w in kinds.windows(2) { rep.set("command_bigrams", format!("{}>{}", w[0], w[1])); }
        for (_, _, s) in o.mgr() {
            let abs = (s.statuses.iter().map(|x| match x { Status::Missing => 0u8, Status::Have => 2, Status::Reserved(_) => 1 }).fold([0u32; 3], |mut a, x| { a[x as usize] += 1; a }), s.peers.iter().map(|p| (p.choked, p.piece_index.is_some(), p.am_interested)).collect::<Vec<_>>());
            rep.set("abstract_states", format!("{:x}", hash64(&abs) & 0xffffff));
        }
        if o.mgr().any(|(_, _, s)| s.statuses.iter().any(|x| matches!(x, Status::Reserved(_)))) { rep.count("scenarios_with_reservation", 1); }
        if o.mgr().any(|(_, _, s)| s.statuses.iter().any(|x| matches!(x, Status::Reserved(n) if *n > 1))) { rep.count("scenarios_with_shared_reservation", 1); }
        // I4: the manager must not panic and must still answer
        let mgr_panic = o.panics.iter().find(|p| p.contains("src/session.rs") || p.contains("Can't handle command") || p.contains("src/peer.rs"));
        if let Some(p) = mgr_panic {
            let sig = if p.contains("Piece downloaded but not requested") { "C12:manager-panic:piece-done-without-assignment".to_string() } else if p.contains("Piece cancelled but not requested") { "C12:manager-panic:piece-cancel-without-assignment".to_string() } else { format!("C12:manager-panic:{}", panic_site(p)) };
            rep.violation(&sig, p.clone(), json!({"scenario": desc, "trace": witness_trace(&o, u64::MAX)}));
            continue;
        }
        if o.session_panicked || !o.session_alive_at_end {
            rep.violation("C12:manager-dead", format!("manager loop ended/does not answer; panics: {:?}", o.panics), json!({"scenario": desc, "trace": witness_trace(&o, u64::MAX)}));
            continue;
        }
        // I5: an assignment does not stay on a piece that is owned meanwhile (the task is told to
        // cancel and the peer is re-assigned or released; 5 s of virtual time are ample for that)
        let mut stuck: HashMap<String, (usize, u64, u64)> = HashMap::new();
        let mut stuck_found: Option<(String, usize, u64, u64)> = None;
        for (e, _, snap) in o.mgr() {
            for p in &snap.peers {
                match p.piece_index { Some(i) if snap.statuses[i] == Status::Have => { stuck.entry(p.addr.clone()).and_modify(|x| if x.0 != i { *x = (i, e.ms, e.seq) }).or_insert((i, e.ms, e.seq)); } _ => { stuck.remove(&p.addr); } }
            }
            stuck.retain(|a, _| snap.peers.iter().any(|p| &p.addr == a));
        }
        for (a, (i, ms, seq)) in &stuck { if o.end_ms > ms + 5_000 { stuck_found = Some((a.clone(), *i, *ms, *seq)); } }
        rep.count("final_assignments_examined", o.final_snapshot.as_ref().map(|s| s.peers.iter().filter(|p| p.piece_index.is_some()).count() as u64).unwrap_or(0));
        if let Some((a, i, ms, seq)) = stuck_found {
            rep.violation("C12:assignment-stuck-on-owned-piece", format!("{} has been assigned piece {} since t={} ms although that piece is owned; nothing changed in the remaining {} ms: the peer is never asked for anything else", a, i, ms, o.end_ms - ms), json!({"scenario": desc, "trace": witness_trace(&o, seq + 40)}));
            continue;
        }
        match check_invariants(&o) {
            None => {
                if k % 400 == 0 { rep.sample(json!({"scenario": desc, "manager_events": nm, "final_statuses": o.final_snapshot.as_ref().map(|s| fmt_status(&s.statuses))})); }
            }
            Some(inv) => rep.violation(&inv.sig, inv.what, json!({"scenario": desc, "trace": witness_trace(&o, inv.at_seq)})),
        }
    }
    rep
}
