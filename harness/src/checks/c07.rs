//! C07 — every peer-wire message round-trips through its BEP3 byte layout.
//! Oracle: independent reference encoder (wire.rs) + self-consistency of parse/serialise.

use crate::util::{catch, hex, panic_site, Ctx, Report, Rng};
use crate::wire::{bitfield_bytes, Msg};
use rdest::verif::*;
use serde_json::json;
use std::io::Cursor;

pub fn frame_bytes(f: &Frame) -> Vec<u8> {
    match f {
        Frame::Handshake(m) => m.data(),
        Frame::KeepAlive(m) => m.data(),
        Frame::Choke(m) => m.data(),
        Frame::Unchoke(m) => m.data(),
        Frame::Interested(m) => m.data(),
        Frame::NotInterested(m) => m.data(),
        Frame::Have(m) => m.data(),
        Frame::Bitfield(m) => m.data(),
        Frame::Request(m) => m.data(),
        Frame::Piece(m) => m.data(),
        Frame::Cancel(m) => m.data(),
    }
}

pub fn frame_kind(f: &Frame) -> &'static str {
    match f {
        Frame::Handshake(_) => "Handshake",
        Frame::KeepAlive(_) => "KeepAlive",
        Frame::Choke(_) => "Choke",
        Frame::Unchoke(_) => "Unchoke",
        Frame::Interested(_) => "Interested",
        Frame::NotInterested(_) => "NotInterested",
        Frame::Have(_) => "Have",
        Frame::Bitfield(_) => "Bitfield",
        Frame::Request(_) => "Request",
        Frame::Piece(_) => "Piece",
        Frame::Cancel(_) => "Cancel",
    }
}

fn u32_edge(r: &mut Rng) -> u32 {
    match r.below(9) {
        0 => 0,
        1 => 1,
        2 => 1 << 14,
        3 => (1 << 16) - 1,
        4 => 1 << 31,
        5 => u32::MAX,
        6 => (1 << 14) + 1,
        7 => 0x0102_0304,
        _ => r.next() as u32,
    }
}

/// Build the message with rdest's constructors and return (impl bytes, reference message).
fn gen(r: &mut Rng) -> (Vec<u8>, Msg) {
    match r.below(11) {
        0 => {
            let mut ih = [0u8; 20];
            ih.copy_from_slice(&r.bytes(20));
            let mut id = [0u8; 20];
            id.copy_from_slice(&r.bytes(20));
            (Handshake::new(&ih, &id).data(), Msg::handshake(&ih, &id))
        }
        1 => (KeepAlive::new().data(), Msg::KeepAlive),
        2 => (Choke::new().data(), Msg::Choke),
        3 => (Unchoke::new().data(), Msg::Unchoke),
        4 => (Interested::new().data(), Msg::Interested),
        5 => (NotInterested::new().data(), Msg::NotInterested),
        6 => {
            let i = u32_edge(r);
            (Have::new(i as usize).data(), Msg::Have(i))
        }
        7 => {
            let n = match r.below(4) { 0 => r.usize(17), 1 => r.usize(200), _ => r.usize(4097) };
            let bits: Vec<bool> = (0..n).map(|_| r.chance(1, 2)).collect();
            (Bitfield::from_vec(&bits).data(), Msg::Bitfield(bitfield_bytes(&bits)))
        }
        8 => {
            let (a, b, c) = (u32_edge(r), u32_edge(r), u32_edge(r));
            (Request::new(a as usize, b as usize, c as usize).data(), Msg::Request(a, b, c))
        }
        9 => {
            let (a, b) = (u32_edge(r), u32_edge(r));
            let n = match r.below(6) { 0 => 0, 1 => 1, 2 => 65527, 3 => 65526, 4 => 16384, _ => r.usize(65528) };
            let d = r.bytes(n);
            (Piece::new(a as usize, b as usize, d.clone()).data(), Msg::Piece(a, b, d))
        }
        _ => {
            let (a, b, c) = (u32_edge(r), u32_edge(r), u32_edge(r));
            (Cancel::new(a as usize, b as usize, c as usize).data(), Msg::Cancel(a, b, c))
        }
    }
}

pub fn run(ctx: &Ctx) -> Report {
    let mut rep = Report::new();
    let mut r = ctx.rng("c07");
    let n = ctx.count(1_000_000, 10_000_000);
    rep.need("roundtrips", 10_000);
    for k in 0..n {
        let (bytes, reference) = gen(&mut r);
        rep.evaluations += 1;
        let want = reference.encode();
        let kind = reference.kind();
        if bytes != want {
            rep.violation(&format!("C07:layout:{}", kind), "serialised bytes differ from the BEP3 layout", json!({"kind": kind, "expected": hex(&want[..want.len().min(64)]), "got": hex(&bytes[..bytes.len().min(64)]), "len_expected": want.len(), "len_got": bytes.len()}));
            continue;
        }
        // parse, also with trailing junk: must consume exactly the message
        let junk = r.chance(1, 2);
        let mut stream = bytes.clone();
        if junk {
            if r.chance(1, 2) {
                let jl = 1 + r.usize(20);
                stream.extend_from_slice(&r.bytes(jl));
            } else {
                // what follows in a real stream: more messages (of the same kind one time in three)
                let next = if r.chance(1, 3) { bytes.clone() } else { gen(&mut r).0 };
                stream.extend_from_slice(&next);
                if r.chance(1, 2) { stream.extend_from_slice(&next); }
            }
        }
        let res = catch(|| {
            let mut crs = Cursor::new(&stream[..]);
            Frame::parse(&mut crs).map(|f| (frame_kind(&f), frame_bytes(&f), crs.position() as usize))
        });
        match res {
            Err(p) => rep.violation(&format!("C07:panic-parse:{}", panic_site(&p)), p, json!({"kind": kind, "bytes": hex(&bytes[..bytes.len().min(64)])})),
            Ok(Err(e)) => rep.violation(&format!("C07:own-encoding-rejected:{}", kind), format!("Frame::parse failed on the client's own encoding: {}", e), json!({"kind": kind, "bytes": hex(&bytes[..bytes.len().min(64)]), "len": bytes.len()})),
            Ok(Ok((k2, b2, pos))) => {
                if k2 != kind || b2 != bytes {
                    rep.violation(&format!("C07:roundtrip:{}", kind), "parse(serialise(m)) != m", json!({"kind": kind, "got_kind": k2, "bytes": hex(&bytes[..bytes.len().min(64)])}));
                } else if pos != bytes.len() {
                    rep.violation(&format!("C07:consumed-length:{}", kind), format!("parser consumed {} bytes of a {}-byte message", pos, bytes.len()), json!({"kind": kind, "trailing_junk": junk}));
                } else {
                    rep.count("roundtrips", 1);
                    rep.count(&format!("kind:{}", kind), 1);
                    if !matches!(reference, Msg::KeepAlive | Msg::Choke | Msg::Unchoke | Msg::Interested | Msg::NotInterested) {
                        rep.distinct(&bytes);
                    }
                    if k % 20_000 == 0 {
                        rep.sample(json!({"kind": kind, "bytes_prefix": hex(&bytes[..bytes.len().min(40)]), "len": bytes.len(), "trailing_junk": junk}));
                    }
                }
            }
        }
    }
    // Bitfield bit mapping, both directions: all vectors up to length 16 (exhaustive), random beyond
    let exhaustive_to = if ctx.scale < 0.2 { 10 } else { 16 };
    let mut idx = 0u64;
    for len in 0..=exhaustive_to {
        for v in 0u32..(1u32 << len) {
            idx += 1;
            if idx % ctx.nshards as u64 != ctx.shard as u64 { continue; }
            let bits: Vec<bool> = (0..len).map(|i| v & (1 << i) != 0).collect();
            check_bits(&mut rep, &bits);
            rep.distinct_enumerated += 1;
        }
    }
    rep.exhaustive_parts.push(format!("all bit vectors of length 0..={}", exhaustive_to));
    for _ in 0..ctx.count(25_000, 200_000) {
        let n = r.usize(4097);
        let bits: Vec<bool> = (0..n).map(|_| r.chance(1, 3)).collect();
        check_bits(&mut rep, &bits);
    }
    rep
}

fn check_bits(rep: &mut Report, bits: &Vec<bool>) {
    rep.evaluations += 1;
    let res = catch(|| {
        let bf = Bitfield::from_vec(bits);
        let data = bf.data();
        let back = bf.to_vec(bits.len());
        (data, back)
    });
    match res {
        Err(p) => rep.violation(&format!("C07:panic-bitfield:{}", panic_site(&p)), p, json!({"bits": bits.len()})),
        Ok((data, back)) => {
            let payload = &data[5.min(data.len())..];
            let mut ok = data.len() == 5 + (bits.len() + 7) / 8;
            for (i, b) in bits.iter().enumerate() {
                if !ok { break; }
                ok &= (payload[i / 8] & (0x80 >> (i % 8)) != 0) == *b;
            }
            // spare bits must be zero
            if ok && bits.len() % 8 != 0 {
                let last = payload[payload.len() - 1];
                ok &= last & (0xffu8 >> (bits.len() % 8)) == 0;
            }
            if !ok {
                rep.violation("C07:bitfield-bit-order", "bit i is not at 0x80>>(i%8) of byte i/8", json!({"bits": bits.iter().map(|b| if *b {'1'} else {'0'}).collect::<String>().chars().take(80).collect::<String>(), "bytes": hex(&data[..data.len().min(32)])}));
                return;
            }
            match back {
                Ok(v) if v == *bits => rep.count("bitfield_roundtrips", 1),
                Ok(_) => rep.violation("C07:bitfield-to-vec", "to_vec(from_vec(v)) != v", json!({"n": bits.len()})),
                Err(e) => rep.violation("C07:bitfield-to-vec", format!("to_vec failed: {}", e), json!({"n": bits.len()})),
            }
        }
    }
}
