//! C16 — the decoder accepts exactly well-formed input and never panics.
//! Oracle: independent strict reference decoder; exhaustive small-alphabet enumeration plus
//! truncations/mutations of valid documents; deep nesting probed in a child process.

use crate::benc::{decode_all, Gen, RefErr, BV};
use crate::util::{catch, panic_site, show, Ctx, Report, Tier};
use rdest::{BDecoder, BValue};
use serde_json::json;

pub const ALPHABET: &[u8] = b"dlie013:-a";

#[derive(Debug)]
pub enum Verdict {
    Agree(bool),
    Bad { sig: String, what: String },
}

/// Compare implementation and reference on one input.
pub fn judge(x: &[u8]) -> Verdict {
    let refr = decode_all(x);
    if let Err(RefErr::TooDeep) = refr {
        return Verdict::Agree(false); // outside the reference's depth bound: not judged here
    }
    let imp = catch(|| BDecoder::from_array(x));
    match (imp, refr) {
        (Err(p), _) => Verdict::Bad { sig: format!("C16:panic:{}", panic_site(&p)), what: p },
        (Ok(Ok(vals)), Ok(rv)) => {
            let want: Vec<BValue> = rv.iter().map(|v| v.to_bvalue()).collect();
            if vals == want {
                Verdict::Agree(true)
            } else {
                Verdict::Bad { sig: "C16:wrong-value".into(), what: "accepted with different values than the reference".into() }
            }
        }
        (Ok(Err(_)), Err(_)) => Verdict::Agree(false),
        (Ok(Err(e)), Ok(_)) => Verdict::Bad { sig: "C16:rejects-wellformed".into(), what: format!("well-formed input rejected: {}", e) },
        (Ok(Ok(vals)), Err(re)) => {
            // classify the ways of accepting malformed input
            match re {
                RefErr::Truncated("list") | RefErr::Truncated("dict") | RefErr::Truncated("dict value") | RefErr::Truncated("value") => {
                    // only terminators missing? then appending k x 'e' gives a well-formed
                    // document with exactly the values the implementation returned
                    let mut y = x.to_vec();
                    for _ in 0..=x.len() {
                        y.push(b'e');
                        if let Ok(rv) = decode_all(&y) {
                            let want: Vec<BValue> = rv.iter().map(|v| v.to_bvalue()).collect();
                            if want == vals {
                                return Verdict::Bad {
                                    sig: "C16:unterminated-container-at-eof".into(),
                                    what: "list/dictionary not terminated before end of input is accepted".into(),
                                };
                            }
                            break;
                        }
                    }
                    Verdict::Bad { sig: "C16:accepts-truncated".into(), what: format!("truncated input accepted ({:?})", re) }
                }
                RefErr::Truncated("string length") => Verdict::Bad {
                    sig: "C16:string-length-without-colon-at-eof".into(),
                    what: "string length digits running to end of input (no ':') are accepted".into(),
                },
                _ => Verdict::Bad { sig: "C16:accepts-malformed".into(), what: format!("malformed input accepted ({:?})", re) },
            }
        }
    }
}

fn record(rep: &mut Report, x: &[u8], v: Verdict, origin: &str) {
    match v {
        Verdict::Agree(acc) => {
            rep.count(if acc { "agree_accept" } else { "agree_reject" }, 1);
        }
        Verdict::Bad { sig, what } => {
            rep.violation(&sig, what, json!({"input": show(x), "input_hex": crate::util::hex(&x[..x.len().min(200)]), "origin": origin}));
        }
    }
}

pub fn run(ctx: &Ctx) -> Report {
    let mut rep = Report::new();
    rep.need("agree_accept", 100);
    rep.need("agree_reject", 1000);

    // (a) exhaustive enumeration over ALPHABET up to length L
    if ctx.want("exhaustive") {
        let maxlen = match ctx.tier { Tier::Quick => 7, Tier::Thorough => 8 };
        let maxlen = if ctx.scale < 0.2 { 5 } else { maxlen };
        let a = ALPHABET.len() as u64;
        let mut buf = Vec::with_capacity(maxlen);
        for len in 0..=maxlen {
            let total = a.pow(len as u32);
            let mut k = ctx.shard as u64;
            while k < total {
                buf.clear();
                let mut t = k;
                for _ in 0..len {
                    buf.push(ALPHABET[(t % a) as usize]);
                    t /= a;
                }
                rep.evaluations += 1;
                rep.distinct_enumerated += 1;
                let v = judge(&buf);
                if let Verdict::Agree(true) = v {
                    if len >= 3 && rep.samples.len() < 2 && k % 977 == 0 {
                        rep.sample(json!({"enumerated_accepted_by_both": show(&buf)}));
                    }
                }
                record(&mut rep, &buf, v, "exhaustive");
                k += ctx.nshards as u64;
            }
        }
        rep.exhaustive_parts.push(format!("all strings over '{}' of length 0..={}", String::from_utf8_lossy(ALPHABET), maxlen));
        rep.count("exhaustive_maxlen", 0);
        rep.max("exhaustive_len", maxlen as u64);
    }

    // (b) valid documents, all their truncations, single-byte mutations
    if ctx.want("mutations") {
        let mut r = ctx.rng("c16-mut");
        let n = ctx.count(15_000, 120_000);
        let g = Gen { max_depth: 5, max_items: 4, max_str: 12 };
        for _ in 0..n {
            let mut doc = vec![];
            let mut vals = vec![];
            for _ in 0..r.range(1, 2) {
                let v = g.value(&mut r, 0);
                v.encode_as_is(&mut doc); // document order, possibly unsorted keys
                vals.push(v);
            }
            // leading zeros in a string length are legal: splice one in sometimes
            if r.chance(1, 4) {
                if let Some(p) = doc.iter().position(|c| c.is_ascii_digit()) {
                    if p == 0 || doc[p - 1] != b'i' && doc[p - 1] != b'-' && !doc[p - 1].is_ascii_digit() {
                        // only safe at a string-length position: verify with the reference
                        let mut d2 = doc.clone();
                        d2.insert(p, b'0');
                        if decode_all(&d2).map(|v| v == decode_all(&doc).unwrap_or_default()).unwrap_or(false) {
                            doc = d2;
                            rep.count("leading_zero_lengths", 1);
                        }
                    }
                }
            }
            rep.evaluations += 1;
            rep.distinct(&doc);
            let v = judge(&doc);
            if rep.samples.len() < 4 {
                rep.sample(json!({"valid_document": show(&doc), "truncations_checked": doc.len()}));
            }
            record(&mut rep, &doc, v, "valid");
            for cut in 0..doc.len() {
                rep.evaluations += 1;
                let v = judge(&doc[..cut]);
                record(&mut rep, &doc[..cut], v, "truncation");
                rep.count("truncations", 1);
            }
            for _ in 0..8 {
                let mut m = doc.clone();
                if m.is_empty() { break; }
                let p = r.usize(m.len());
                match r.below(4) {
                    0 => m[p] = *r.pick(ALPHABET),
                    1 => m[p] = r.below(256) as u8,
                    2 => { m.remove(p); }
                    _ => m.insert(p, *r.pick(ALPHABET)),
                }
                rep.evaluations += 1;
                rep.distinct(&m);
                let v = judge(&m);
                record(&mut rep, &m, v, "mutation");
                rep.count("mutations", 1);
            }
        }
        let _ = BV::Int(0);
    }

    // (b1) well-formed documents with long byte strings (a torrent with 60 000 pieces has a 1.2 MB one)
    if ctx.want("extremes") && ctx.shard == 1 % ctx.nshards {
        for len in [65_536usize, 1 << 20, (1 << 20) + 1, 1_200_000, 3_000_000] {
            let mut doc = format!("d6:pieces{}:", len).into_bytes();
            doc.extend(std::iter::repeat(0xABu8).take(len));
            doc.push(b'e');
            for d in [doc.clone(), doc[9..doc.len() - 1].to_vec()] {
                rep.evaluations += 1;
                rep.count("long_byte_strings", 1);
                match catch(|| BDecoder::from_array(&d)) {
                    Err(p) => rep.violation(&format!("C16:panic:{}", panic_site(&p)), p, json!({"input": format!("a {}-byte string, document of {} bytes", len, d.len())})),
                    Ok(Err(e)) => rep.violation("C16:rejects-wellformed", format!("well-formed input rejected: {}", e), json!({"input": format!("byte string of {} bytes ({} bytes in all)", len, d.len())})),
                    Ok(Ok(_)) => (),
                }
            }
        }
    }
    // (b2) numeric extremes: string lengths and integers around 2^63 / 2^64 and with many digits
    if ctx.want("extremes") && ctx.shard == 0 {
        let two64: u128 = 1u128 << 64;
        let mut cases: Vec<Vec<u8>> = vec![];
        for k in 0..6u128 {
            // a length that wraps to k in 64-bit arithmetic, followed by exactly k bytes (and more)
            for tail in [k as usize, k as usize + 1, 0] {
                let mut v = format!("{}:", two64 + k).into_bytes();
                v.extend(std::iter::repeat(b'a').take(tail));
                cases.push(v.clone());
                let mut l = b"l".to_vec(); l.extend_from_slice(&v); l.push(b'e'); cases.push(l);
                let mut d = b"d".to_vec(); d.extend_from_slice(&v); d.extend_from_slice(b"i1ee"); cases.push(d);
            }
        }
        for n in [u64::MAX as u128, (u64::MAX as u128) - 1, 1u128 << 63, (1u128 << 63) - 1, 10u128.pow(19), 10u128.pow(20), 99999999999999999999u128, 340282366920938463463374607431768211455u128, 4294967296, 4294967297] {
            cases.push(format!("{}:", n).into_bytes());
            cases.push(format!("{}:a", n).into_bytes());
            cases.push(format!("i{}e", n).into_bytes());
            cases.push(format!("i-{}e", n).into_bytes());
            cases.push(format!("li{}ee", n).into_bytes());
        }
        cases.push(b"i9223372036854775807e".to_vec());
        cases.push(b"i9223372036854775808e".to_vec());
        cases.push(b"i-9223372036854775808e".to_vec());
        cases.push(b"i-9223372036854775809e".to_vec());
        cases.push(format!("{}1:a", "0".repeat(40)).into_bytes());
        cases.push(format!("i{}1e", "0".repeat(40)).into_bytes());
        for c in cases {
            rep.evaluations += 1;
            rep.distinct(&c);
            rep.count("numeric_extremes", 1);
            // first in a child process: an allocation failure or a stack overflow aborts the
            // process and cannot be caught in this one
            // (not under Miri, which cannot start processes: there the case is judged in-process only)
            let exe = std::env::current_exe().unwrap();
            if cfg!(miri) { let v = judge(&c); record(&mut rep, &c, v, "numeric-extreme"); continue; }
            match std::process::Command::new(exe).args(["probe", "decode-hex", &crate::util::hex(&c)]).output() {
                Ok(o) if o.status.code().is_none() => {
                    rep.violation("C16:process-abort:numeric-extreme", format!("the decoder process was killed ({:?}) by input {}", o.status, show(&c)), json!({"input": show(&c)}));
                    continue;
                }
                Ok(_) => rep.count("numeric_extremes_probed_in_child", 1),
                Err(e) => { rep.inconclusive(format!("cannot spawn probe: {}", e)); continue; }
            }
            let v = judge(&c);
            record(&mut rep, &c, v, "numeric-extreme");
        }
    }

    // (c) deep nesting, in a child process (stack exhaustion aborts the process)
    if ctx.want("deep") && ctx.shard == 0 {
        for (ch, depth) in [(b'l', 1_000usize), (b'l', 100_000), (b'd', 100_000)] {
            rep.evaluations += 1;
            let exe = std::env::current_exe().unwrap();
            let out = std::process::Command::new(exe)
                .args(["probe", "deep-nest", &(ch as char).to_string(), &depth.to_string()])
                .output();
            match out {
                Ok(o) => {
                    rep.count("deep_probes", 1);
                    if !o.status.success() {
                        let sig = if o.status.code().is_none() { "C16:stack-exhaustion-deep-nesting".to_string() } else { format!("C16:deep-nesting-exit-{}", o.status.code().unwrap()) };
                        rep.violation(&sig, format!("decoder process died on {} nested '{}' ({:?})", depth, ch as char, o.status), json!({"input": format!("{} x '{}'", depth, ch as char)}));
                    }
                }
                Err(e) => rep.inconclusive(format!("cannot spawn probe: {}", e)),
            }
        }
    }
    rep
}

pub fn probe_decode_hex(args: &[String]) {
    let h = args[1].as_bytes();
    let v: Vec<u8> = h.chunks(2).map(|p| u8::from_str_radix(std::str::from_utf8(p).unwrap(), 16).unwrap()).collect();
    let r = std::panic::catch_unwind(|| BDecoder::from_array(&v).is_ok());
    std::process::exit(if r.is_ok() { 0 } else { 3 });
}

pub fn probe_deep(args: &[String]) {
    let ch = args[1].as_bytes()[0];
    let n: usize = args[2].parse().unwrap();
    let mut v = vec![];
    if ch == b'd' {
        // d 1:a d 1:a ... : nested dictionaries as values
        for _ in 0..n { v.extend_from_slice(b"d1:a"); }
    } else {
        v = vec![ch; n];
    }
    // the property demands termination without panicking; the result itself is irrelevant here
    let r = std::panic::catch_unwind(|| BDecoder::from_array(&v).is_ok());
    std::process::exit(if r.is_ok() { 0 } else { 3 });
}
