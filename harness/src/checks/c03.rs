//! C03 — verified pieces are reassembled into exactly the described files.
//! C04 — extraction never writes outside the download directory.
//! Both drive the real `Extractor` in a scratch cwd pre-filled with valid piece files and judge
//! the resulting file system state (file-system oracle).

use crate::torrent::{split_lengths, Torrent};
use crate::util::{catch, hash64, panic_site, sha1, Ctx, Report, Rng};
use rdest::verif::{Extractor, ExtractorCmd};
use serde_json::{json, Value};
use std::collections::BTreeMap;
use std::path::{Path, PathBuf};

pub fn rt() -> tokio::runtime::Runtime {
    tokio::runtime::Builder::new_current_thread().enable_all().build().unwrap()
}

/// Recursive listing: relative path -> (is_dir, len, sha1) — symlinks are not followed.
pub fn listing(root: &Path) -> BTreeMap<PathBuf, (bool, u64, [u8; 20])> {
    fn walk(root: &Path, dir: &Path, out: &mut BTreeMap<PathBuf, (bool, u64, [u8; 20])>) {
        let rd = match std::fs::read_dir(dir) { Ok(r) => r, Err(_) => return };
        for e in rd.flatten() {
            let p = e.path();
            let rel = p.strip_prefix(root).unwrap().to_path_buf();
            let md = match std::fs::symlink_metadata(&p) { Ok(m) => m, Err(_) => continue };
            if md.is_dir() {
                out.insert(rel, (true, 0, [0; 20]));
                walk(root, &p, out);
            } else {
                let data = std::fs::read(&p).unwrap_or_default();
                out.insert(rel, (false, data.len() as u64, sha1(&data)));
            }
        }
    }
    let mut out = BTreeMap::new();
    walk(root, root, &mut out);
    out
}

/// Run the real extractor in `cwd`; returns its report (Done/Fail text) or the panic.
pub fn run_extractor(rt: &tokio::runtime::Runtime, t: &Torrent, cwd: &Path) -> Result<Result<(), String>, String> {
    std::env::set_current_dir(cwd).unwrap();
    let m = t.metainfo();
    catch(|| {
        rt.block_on(async {
            let (tx, mut rx) = tokio::sync::mpsc::channel(4);
            let mut ex = Extractor::new(m, tx);
            ex.run().await;
            match rx.recv().await {
                Some(ExtractorCmd::Done) => Ok(()),
                Some(ExtractorCmd::Fail(e)) => Err(e),
                None => Err("no report".to_string()),
            }
        })
    })
}

/// Judge one C03 case. `dir` must be an empty directory.
pub fn judge_c03(rt: &tokio::runtime::Runtime, t: &Torrent, dir: &Path) -> Result<(), (String, String, Value)> {
    t.write_pieces(dir, 0..t.n());
    let geometry = json!({"piece_length": t.piece_len, "file_lengths": t.files.iter().map(|f| f.1).collect::<Vec<_>>(), "paths": t.files.iter().map(|f| f.0.clone()).collect::<Vec<_>>(), "single": t.single});
    // reference arithmetic on piece lengths
    let m = t.metainfo();
    if t.n() > 0 {
        let mut sum = 0usize;
        for i in 0..t.n() {
            let got = match catch(|| m.piece_length(i)) { Ok(g) => g, Err(p) => return Err((format!("C03:panic:{}", panic_site(&p)), p, geometry)) };
            let want = t.piece_len_of(i);
            if got != want {
                return Err(("C03:piece-length".into(), format!("piece_length({}) = {} but the content puts {} bytes there", i, got, want), geometry));
            }
            sum += got;
        }
        if sum != t.total() {
            return Err(("C03:piece-length-sum".into(), format!("piece lengths sum to {} != total {}", sum, t.total()), geometry));
        }
    }
    // in a third of the cases the output files exist already (left from an earlier run), longer
    // than what is to be written and with other bytes: the result must not depend on that
    if crate::util::hash64(&t.bytes) % 3 == 0 {
        for (k, (p, data)) in t.expected_files().iter().enumerate() {
            let full = dir.join(p);
            if let Some(parent) = full.parent() { let _ = std::fs::create_dir_all(parent); }
            let mut old = vec![0xEEu8; data.len() + 1 + (k % 7)];
            for (j, b) in old.iter_mut().enumerate() { *b ^= j as u8; }
            let _ = std::fs::write(&full, &old);
        }
    }
    let before: Vec<PathBuf> = listing(dir).keys().cloned().collect();
    match run_extractor(rt, t, dir) {
        Err(p) => return Err((format!("C03:panic:{}", panic_site(&p)), p, geometry)),
        Ok(Err(e)) => return Err(("C03:extractor-failed".into(), format!("extractor reported failure on a consistent torrent: {}", e), geometry)),
        Ok(Ok(())) => (),
    }
    let after = listing(dir);
    let expected = t.expected_files();
    // later duplicates of the same path overwrite earlier ones: generators use unique paths
    for (k, (p, data)) in expected.iter().enumerate() {
        match after.get(p) {
            None => return Err(("C03:file-missing".into(), format!("file #{} {:?} was not written", k, p), geometry)),
            Some((true, _, _)) => return Err(("C03:file-missing".into(), format!("{:?} is a directory", p), geometry)),
            Some((false, len, h)) => {
                if *len as usize != data.len() {
                    let off: usize = t.files[..k].iter().map(|f| f.1).sum();
                    let sig = if off % t.piece_len != 0 && off / t.piece_len == (off + data.len()) / t.piece_len.max(1) && (off + data.len()) % t.piece_len != 0 || (data.is_empty() && off % t.piece_len != 0) {
                        "C03:file-inside-one-piece-wrong-range"
                    } else {
                        "C03:file-length"
                    };
                    return Err((sig.into(), format!("file #{} {:?}: {} bytes written, {} declared (content offset {})", k, p, len, data.len(), off), geometry));
                }
                if *h != sha1(data) {
                    return Err(("C03:file-content".into(), format!("file #{} {:?}: bytes differ from content[offset..offset+len]", k, p), geometry));
                }
            }
        }
    }
    // nothing else may appear (directories leading to expected files are fine)
    for (p, (is_dir, _, _)) in &after {
        if before.contains(p) { continue; }
        let ok = if *is_dir { expected.iter().any(|(e, _)| e.starts_with(p)) } else { expected.iter().any(|(e, _)| e == p) };
        if !ok {
            return Err(("C03:unexpected-file".into(), format!("unexpected entry {:?} after extraction", p), geometry));
        }
    }
    Ok(())
}

pub fn run(ctx: &Ctx) -> Report {
    let mut rep = Report::new();
    let rt = rt();
    rep.need("extractions_checked", 500);
    let mut case_no = 0u64;
    let mut dir_no = 0u64;
    let mut fresh = |scratch: &Path| -> PathBuf {
        dir_no += 1;
        let d = scratch.join(format!("c{}", dir_no));
        std::fs::create_dir_all(&d).unwrap();
        d
    };

    // (1) exhaustive small scope: p in 1..=P, up to K files with lengths 0..=2p+1
    if ctx.want("exhaustive") {
        let (pmax, kmax) = match (ctx.tier, ctx.scale < 0.2) {
            (_, true) => (3usize, 3usize),
            (crate::util::Tier::Quick, _) => (4, 4),
            (crate::util::Tier::Thorough, _) => (6, 4),
        };
        for p in 1..=pmax {
            let maxlen = 2 * p + 1;
            for k in 1..=kmax {
                let combos = (maxlen + 1).pow(k as u32);
                for c in 0..combos {
                    for single in [true, false] {
                        if single && k != 1 { continue; }
                        case_no += 1;
                        if case_no % ctx.nshards as u64 != ctx.shard as u64 { continue; }
                        let mut lens = vec![];
                        let mut x = c;
                        for _ in 0..k { lens.push(x % (maxlen + 1)); x /= maxlen + 1; }
                        let total: usize = lens.iter().sum();
                        let content: Vec<u8> = (0..total).map(|i| (i as u8).wrapping_mul(37).wrapping_add(11)).collect();
                        let files: Vec<(String, usize)> = lens.iter().enumerate().map(|(i, l)| (if i % 3 == 2 { format!("s/f{}", i) } else { format!("f{}", i) }, *l)).collect();
                        let name = if single { "f0" } else { "out" };
                        let files = if single { vec![("f0".to_string(), lens[0])] } else { files };
                        let t = Torrent::build(p, name, files, single, content, "http://t.invalid/a");
                        let d = fresh(&ctx.scratch);
                        rep.evaluations += 1;
                        rep.distinct_enumerated += 1;
                        match judge_c03(&rt, &t, &d) {
                            Ok(()) => {
                                rep.count("extractions_checked", 1);
                                if lens.iter().any(|l| *l == 0) { rep.count("with_zero_length_file", 1); }
                                if lens.iter().filter(|l| **l > 0 && **l < p).count() >= 2 { rep.count("several_files_inside_one_piece", 1); }
                                if case_no % 4001 == 0 { rep.sample(json!({"piece_length": p, "file_lengths": lens, "single": single})); }
                            }
                            Err((sig, what, g)) => rep.violation(&sig, what, g),
                        }
                        let _ = std::env::set_current_dir("/");
                        let _ = std::fs::remove_dir_all(&d);
                    }
                }
            }
        }
        rep.exhaustive_parts.push(format!("all layouts with piece length 1..={}, 1..={} files, each file length 0..=2p+1", pmax, kmax));
    }

    // (2) random larger geometries
    if ctx.want("random") {
        let mut r = ctx.rng("c03-rand");
        for i in 0..ctx.count(15_000, 60_000) {
            // one case in 60 has pieces larger than 256 KiB (the client's own read size)
            let big = i % 60 == 7;
            let p = if big { *r.pick(&[262145usize, 300_000, 524288, 524289, 700_001]) } else { match r.below(4) { 0 => r.range(1, 64) as usize, 1 => 16384, 2 => r.range(1000, 40000) as usize, _ => r.range(2, 600) as usize } };
            let npieces = if big { r.range(1, 3) as usize } else { r.range(1, 9) as usize };
            let total = (npieces - 1) * p + r.range(1, p as u64) as usize;
            let single = r.chance(1, 4);
            let k = if single { 1 } else { r.range(1, 8) as usize };
            let lens = split_lengths(&mut r, total, k, p);
            let content = r.bytes(total);
            let files: Vec<(String, usize)> = lens.iter().enumerate().map(|(i, l)| (match i % 4 { 0 => format!("f{}.bin", i), 1 => format!("a/f{}", i), 2 => format!("a/b/f {}", i), _ => format!("ü{}", i) }, *l)).collect();
            let t = Torrent::build(p, if single { "f0.bin" } else { "out dir" }, if single { vec![("f0.bin".into(), total)] } else { files }, single, content, "http://t.invalid/a");
            let d = fresh(&ctx.scratch);
            rep.evaluations += 1;
            rep.distinct(&hash64(&(p, &lens, single)));
            match judge_c03(&rt, &t, &d) {
                Ok(()) => {
                    rep.count("extractions_checked", 1);
                    if i % 500 == 0 { rep.sample(json!({"piece_length": p, "file_lengths": lens, "single": single})); }
                }
                Err((sig, what, g)) => rep.violation(&sig, what, g),
            }
            let _ = std::env::set_current_dir("/");
            let _ = std::fs::remove_dir_all(&d);
        }
    }
    rep
}

// ------------------------------------------------------------------------------------------------
// C04

const COMPONENTS: &[&str] = &["..", ".", "", "x", "y z", "ü", "..x", "...", "a.."];

fn gen_path(r: &mut Rng, abs_target: &Path) -> String {
    let n = r.range(1, 4) as usize;
    let mut parts: Vec<String> = (0..n).map(|_| {
        let w = r.below(10);
        if w < 4 { "..".to_string() } else { r.pick(COMPONENTS).to_string() }
    }).collect();
    if parts.iter().all(|p| p.is_empty() || p == "." || p == "..") {
        parts.push("leaf".into());
    }
    let mut s = parts.join("/");
    match r.below(8) {
        0 => s = format!("/{}", s),                                    // leading slash
        1 => s = format!("{}/{}", abs_target.display(), s.trim_start_matches('/')), // absolute path into the sandbox root
        2 => s.push('/'),                                               // trailing slash
        _ => (),
    }
    s
}

/// Lexical worst-case check: would following `p` from `base` stay inside `root`?
fn stays_inside_root(root: &Path, base: &Path, p: &str) -> bool {
    let (mut cur, rest): (PathBuf, String) = if p.starts_with('/') {
        // absolute: only paths that start inside the sandbox root are ever run
        let rs = format!("{}/", root.display());
        match p.strip_prefix(&rs) {
            Some(rest) => (root.to_path_buf(), rest.to_string()),
            None => return false,
        }
    } else {
        (base.to_path_buf(), p.to_string())
    };
    for c in rest.split('/') {
        match c { "" | "." => (), ".." => { cur.pop(); } x => cur.push(x) }
        if !cur.starts_with(root) { return false; }
    }
    true
}

pub fn run_c04(ctx: &Ctx) -> Report {
    let mut rep = Report::new();
    let rt = rt();
    let mut r = ctx.rng("c04");
    rep.need("hostile_cases_judged", 300);
    let n = ctx.count(12_000, 60_000);
    for i in 0..n {
        // sandbox: R/a/b/c/d/e/cwd, canaries everywhere outside cwd
        let root = ctx.scratch.join(format!("R{}", i));
        let cwd = root.join("a/b/c/d/e/cwd");
        let abs_target = root.join("abs_target");
        std::fs::create_dir_all(&cwd).unwrap();
        std::fs::create_dir_all(&abs_target).unwrap();
        let mut anc = root.clone();
        std::fs::write(anc.join("canary"), b"canary").unwrap();
        for c in ["a", "b", "c", "d", "e"] {
            anc = anc.join(c);
            std::fs::write(anc.join("canary"), b"canary").unwrap();
        }
        let multi = r.chance(2, 3);
        let hostile_name = r.chance(1, 2);
        let name = if hostile_name { gen_path(&mut r, &abs_target) } else { "dl".to_string() };
        // (a `files` list may also have exactly one entry)
        let k = if multi { r.range(1, 3) as usize } else { 1 };
        let p = 16usize;
        let lens: Vec<usize> = (0..k).map(|_| r.range(0, 40) as usize).collect();
        let total: usize = lens.iter().sum();
        let files: Vec<(String, usize)> = if multi {
            lens.iter().enumerate().map(|(j, l)| (if !hostile_name || r.chance(1, 2) { gen_path(&mut r, &abs_target) + &format!("{}", j) } else { format!("f{}", j) }, *l)).collect()
        } else {
            vec![(name.clone(), total)]
        };
        // safety of the check itself: only run cases whose worst case stays inside the sandbox root
        let base_for_files = if multi { cwd.join(&name) } else { cwd.clone() };
        let safe = stays_inside_root(&root, &cwd, &name)
            && files.iter().all(|(fp, _)| stays_inside_root(&root, &base_for_files, fp) && stays_inside_root(&root, &cwd, fp));
        if !safe || name.contains('\0') {
            rep.count("skipped_could_leave_sandbox_root", 1);
            let _ = std::fs::remove_dir_all(&root);
            continue;
        }
        let t = Torrent::build(p, &name, files.clone(), !multi, r.bytes(total), "http://t.invalid/a");
        if catch(|| t.metainfo()).is_err() {
            let _ = std::fs::remove_dir_all(&root);
            continue;
        }
        t.write_pieces(&cwd, 0..t.n());
        let before = listing(&root);
        rep.evaluations += 1;
        let res = run_extractor(&rt, &t, &cwd);
        let _ = std::env::set_current_dir("/");
        let after = listing(&root);
        let witness = json!({"name": name, "paths": files.iter().map(|f| f.0.clone()).collect::<Vec<_>>(), "multi_file": multi, "cwd": "R/a/b/c/d/e/cwd"});
        let cwd_rel = cwd.strip_prefix(&root).unwrap().to_path_buf();
        let mut bad: Option<String> = None;
        for (pth, meta) in &after {
            let inside_cwd = pth.starts_with(&cwd_rel);
            if !inside_cwd {
                if before.get(pth) != Some(meta) {
                    bad = Some(format!("created or changed outside the download directory: R/{}", pth.display()));
                    break;
                }
            } else if multi && !hostile_name {
                // inside cwd: everything new must lie under cwd/<name>
                let rel = pth.strip_prefix(&cwd_rel).unwrap();
                if !before.contains_key(pth) && !rel.starts_with(&name) && rel != Path::new("") {
                    bad = Some(format!("multi-file torrent wrote outside its own sub-directory: cwd/{}", rel.display()));
                    break;
                }
            }
        }
        for pth in before.keys() {
            if !after.contains_key(pth) && !pth.starts_with(&cwd_rel) {
                bad = Some(format!("removed outside the download directory: R/{}", pth.display()));
            }
        }
        let hostile = name.contains("..") || name.starts_with('/') || files.iter().any(|f| f.0.contains("..") || f.0.starts_with('/'));
        match (&res, bad) {
            (Err(p), _) => rep.violation(&format!("C04:panic:{}", panic_site(p)), p.clone(), witness),
            (_, Some(b)) => {
                let kind = if name.starts_with('/') || files.iter().any(|f| f.0.starts_with('/')) { "absolute" } else { "parent-dir" };
                rep.violation(&format!("C04:escape:{}", kind), b, witness)
            }
            (Ok(_), None) => {
                if hostile {
                    rep.count("hostile_cases_judged", 1);
                    rep.count(if matches!(res, Ok(Ok(()))) { "hostile_neutralised_or_harmless" } else { "hostile_refused" }, 1);
                    rep.distinct(&hash64(&(&name, &files)));
                    if i % 300 == 0 { rep.sample(witness); }
                } else {
                    rep.count("benign_cases", 1);
                }
            }
        }
        let _ = std::fs::remove_dir_all(&root);
    }
    rep
}
