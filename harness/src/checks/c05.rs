//! C05 — the info-hash is the SHA-1 of the exact byte span of the top-level `info` value.
//! The generator emits the document byte by byte and therefore knows that span.

use crate::benc::{Gen, BV};
use crate::util::{catch, panic_site, sha1, show, Ctx, Report, Rng};
use rdest::{DeepFinder, Metainfo, RawFinder};
use serde_json::json;

/// Encode a byte string with an optionally zero-padded length (legal bencode).
fn enc_str(out: &mut Vec<u8>, s: &[u8], zeros: usize) {
    for _ in 0..zeros {
        out.push(b'0');
    }
    out.extend_from_slice(s.len().to_string().as_bytes());
    out.push(b':');
    out.extend_from_slice(s);
}

/// Encode a value in document order; strings get leading-zero lengths with probability 1/6.
fn enc_noncanon(out: &mut Vec<u8>, v: &BV, r: &mut Rng, zeros_ok: bool) {
    match v {
        BV::Int(_) => v.encode_as_is(out),
        BV::Str(s) => {
            let z = if zeros_ok && r.chance(1, 6) { r.range(1, 3) as usize } else { 0 };
            enc_str(out, s, z)
        }
        BV::List(l) => {
            out.push(b'l');
            for x in l {
                enc_noncanon(out, x, r, zeros_ok);
            }
            out.push(b'e');
        }
        BV::Dict(d) => {
            out.push(b'd');
            for (k, x) in d {
                // keys keep canonical length digits: a zero-padded *key* spelled "info" is a
                // different raw key for a raw finder and only leads to rejection, never to a
                // wrong hash; not interesting here
                enc_str(out, k, 0);
                enc_noncanon(out, x, r, zeros_ok);
            }
            out.push(b'e');
        }
    }
}

fn contains_info_key_in_dict_chain(v: &BV) -> bool {
    // what a "deep" finder would descend into: dictionaries nested through dictionary values
    match v {
        BV::Dict(d) => d.iter().any(|(k, x)| k == b"info" || contains_info_key_in_dict_chain(x)),
        _ => false,
    }
}

pub struct Doc {
    pub bytes: Vec<u8>,
    pub span: (usize, usize),
    pub nested_info_before: bool,
    pub shape: String,
}

pub fn gen_doc(r: &mut Rng) -> Doc {
    let g = Gen { max_depth: 3, max_items: 3, max_str: 10 };
    // ---- the info dictionary -------------------------------------------------------------
    let npieces = r.range(1, 4) as usize;
    let piece_len = *r.pick(&[1i64, 16, 16384, 262144, 1 << 40]);
    let mut info: Vec<(Vec<u8>, BV)> = vec![
        (b"name".to_vec(), BV::Str(if r.chance(1, 4) { b"4:info".to_vec() } else { b"NAME".to_vec() })),
        (b"piece length".to_vec(), BV::Int(piece_len)),
        (b"pieces".to_vec(), BV::Str(r.bytes(20 * npieces))),
    ];
    if r.chance(1, 2) {
        info.push((b"length".to_vec(), BV::Int(r.range(0, 1 << 20) as i64)));
    } else {
        let k = r.range(1, 3);
        info.push((
            b"files".to_vec(),
            BV::List(
                (0..k)
                    .map(|i| {
                        BV::Dict(vec![
                            (b"length".to_vec(), BV::Int(r.range(0, 5000) as i64)),
                            (b"path".to_vec(), BV::Str(format!("f{}", i).into_bytes())),
                        ])
                    })
                    .collect(),
            ),
        ));
    }
    // extra keys inside info, incl. a nested key spelled "info" and binary strings
    for _ in 0..r.below(3) {
        let k = match r.below(4) {
            0 => b"info".to_vec(),
            1 => b"private".to_vec(),
            _ => {
                let mut k = g.string(r);
                if k == b"length" || k == b"files" || k == b"name" || k == b"pieces" || k == b"piece length" {
                    k.push(b'_');
                }
                k
            }
        };
        if info.iter().any(|e| e.0 == k) {
            continue;
        }
        info.push((k, g.value(r, 1)));
    }
    let canonical_order = r.chance(1, 2);
    if canonical_order {
        info.sort_by(|a, b| a.0.cmp(&b.0));
    } else {
        r.shuffle(&mut info);
    }
    let zeros_in_info = r.chance(1, 2);
    let mut info_bytes = vec![];
    enc_noncanon(&mut info_bytes, &BV::Dict(info), r, zeros_in_info);

    // ---- top level -------------------------------------------------------------------------
    enum Top {
        Info,
        Other(Vec<u8>, BV),
    }
    let mut top: Vec<Top> = vec![Top::Info, Top::Other(b"announce".to_vec(), BV::s("http://tracker.invalid/a"))];
    let mut shape = vec![];
    for _ in 0..r.below(4) {
        let mut k = match r.below(8) {
            0 => b"a".to_vec(),
            1 => b"zz".to_vec(),
            2 => b"comment".to_vec(),
            3 => b"infoo".to_vec(),
            // look-alikes of the key: other letter case, a prefix, surrounding blanks
            4 => { shape.push("look-alike-key"); r.pick(&[&b"INFO"[..], b"Info", b"iNFO", b"infO", b"InFo"]).to_vec() }
            5 => { shape.push("look-alike-key"); r.pick(&[&b"inf"[..], b"info ", b" info", b"info\0", b"4:info", b"nfo"]).to_vec() }
            _ => g.string(r),
        };
        if k == b"info" || k == b"announce" {
            k.push(b'x');
        }
        if top.iter().any(|t| matches!(t, Top::Other(kk, _) if *kk == k)) {
            continue;
        }
        let v = match r.below(6) {
            // a nested dictionary with its own key "info"
            0 => {
                shape.push("nested-dict-with-info");
                BV::Dict(vec![(b"info".to_vec(), g.value(r, 2))])
            }
            1 => {
                shape.push("nested-dict-2-levels-with-info");
                BV::Dict(vec![(b"x".to_vec(), BV::Dict(vec![(b"info".to_vec(), BV::Int(1))]))])
            }
            2 => {
                shape.push("list-of-dict-with-info");
                BV::List(vec![BV::Dict(vec![(b"info".to_vec(), g.value(r, 2))])])
            }
            3 => {
                shape.push("string-containing-4:info");
                BV::Str(b"4:infod1:ai1ee".to_vec())
            }
            _ => g.value(r, 0),
        };
        top.push(Top::Other(k, v));
    }
    match r.below(3) {
        0 => top.sort_by(|a, b| {
            let ka = match a { Top::Info => b"info".to_vec(), Top::Other(k, _) => k.clone() };
            let kb = match b { Top::Info => b"info".to_vec(), Top::Other(k, _) => k.clone() };
            ka.cmp(&kb)
        }),
        _ => r.shuffle(&mut top),
    }
    let mut bytes = vec![b'd'];
    let mut span = (0, 0);
    let mut nested_info_before = false;
    let mut seen_info = false;
    for t in &top {
        match t {
            Top::Info => {
                enc_str(&mut bytes, b"info", 0);
                span.0 = bytes.len();
                bytes.extend_from_slice(&info_bytes);
                span.1 = bytes.len();
                seen_info = true;
            }
            Top::Other(k, v) => {
                if !seen_info && contains_info_key_in_dict_chain(v) {
                    nested_info_before = true;
                }
                enc_str(&mut bytes, k, 0);
                enc_noncanon(&mut bytes, v, r, true);
            }
        }
    }
    bytes.push(b'e');
    // data following the dictionary
    if r.chance(1, 3) {
        shape.push("trailing-values");
        for _ in 0..r.range(1, 2) {
            let v = match r.below(3) {
                0 => BV::Dict(vec![(b"info".to_vec(), BV::Int(7))]),
                _ => g.value(r, 1),
            };
            enc_noncanon(&mut bytes, &v, r, true);
        }
    }
    if !canonical_order {
        shape.push("info-keys-unsorted");
    }
    if zeros_in_info {
        shape.push("zero-padded-lengths");
    }
    shape.sort();
    shape.dedup();
    Doc { bytes, span, nested_info_before, shape: shape.join("+") }
}

/// Span of the value a depth-first search (document order, descending into dictionary values)
/// finds first under a key spelled "info" — what the recorded defect hashes.
pub fn deep_first_info_span(b: &[u8], dict_start: usize) -> Option<(usize, usize)> {
    let entries = crate::benc::dict_entry_spans(b, dict_start).ok()?;
    for (k, s, e) in entries {
        if k == b"info" { return Some((s, e)); }
        if b.get(s) == Some(&b'd') {
            if let Some(x) = deep_first_info_span(b, s) { return Some(x); }
        }
    }
    None
}

pub fn judge(doc: &Doc) -> Result<bool, (String, String)> {
    let want = sha1(&doc.bytes[doc.span.0..doc.span.1]);
    match catch(|| Metainfo::from_bencode(&doc.bytes)) {
        Err(p) => Err((format!("C05:panic:{}", panic_site(&p)), p)),
        Ok(Err(_)) => Ok(false),
        Ok(Ok(m)) => {
            if *m.info_hash() == want {
                // the raw finder itself must return exactly the span
                let raw = DeepFinder::find_first("4:info", &doc.bytes);
                if raw.as_deref() != Some(&doc.bytes[doc.span.0..doc.span.1]) {
                    return Err(("C05:raw-finder-span-differs".into(), "find_first(4:info) is not the top-level info span although the hash matched".into()));
                }
                Ok(true)
            } else if doc.nested_info_before && deep_first_info_span(&doc.bytes, 0).map(|(a, b)| sha1(&doc.bytes[a..b]) == *m.info_hash()).unwrap_or(false) {
                Err((
                    "C05:nested-info-key-before-top-level-info".into(),
                    "a dictionary-valued key ordered before the top-level info that itself contains a key \"info\" is hashed instead of the top-level info value".into(),
                ))
            } else {
                Err(("C05:wrong-info-hash".into(), "info_hash() differs from SHA-1 of the top-level info span".into()))
            }
        }
    }
}

pub fn run(ctx: &Ctx) -> Report {
    let mut rep = Report::new();
    let mut r = ctx.rng("c05");
    let n = ctx.count(200_000, 2_000_000);
    rep.need("accepted_and_hash_checked", 2000);
    for k in 0..n {
        let doc = gen_doc(&mut r);
        rep.evaluations += 1;
        rep.set("shapes", doc.shape.clone());
        match judge(&doc) {
            Ok(true) => {
                rep.count("accepted_and_hash_checked", 1);
                if !doc.shape.is_empty() {
                    rep.distinct(&doc.bytes);
                }
                if doc.nested_info_before {
                    rep.count("accepted_with_nested_info_before", 1);
                }
                if k % 50 == 0 {
                    rep.sample(json!({"document": show(&doc.bytes), "info_span": [doc.span.0, doc.span.1], "shape": doc.shape}));
                }
            }
            Ok(false) => rep.count("rejected_by_parser", 1),
            Err((sig, what)) => {
                rep.distinct(&doc.bytes);
                rep.violation(&sig, what, json!({"document": show(&doc.bytes), "document_hex": crate::util::hex(&doc.bytes), "info_span": [doc.span.0, doc.span.1], "shape": doc.shape}))
            }
        }
    }
    rep
}
