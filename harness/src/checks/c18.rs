//! C18 — the tracker announce names the right torrent and client.
//! The real `TrackerClient::run` (reqwest) talks to a loopback listener inside the harness; the
//! captured request is parsed by an independent parser and compared with the ground truth.

use crate::util::{hex, sha1, show, Ctx, Report, Rng};
use rdest::verif::TrackerCmd;
use rdest::{Metainfo, TrackerClient};
use serde_json::json;
use tokio::io::{AsyncReadExt, AsyncWriteExt};
use tokio::net::TcpListener;
use tokio::time::Duration;

/// application/x-www-form-urlencoded decoding: '+' is a space, %XX a byte.
fn form_decode(s: &str) -> Option<Vec<u8>> {
    let b = s.as_bytes();
    let mut out = vec![];
    let mut i = 0;
    while i < b.len() {
        match b[i] {
            b'+' => { out.push(b' '); i += 1; }
            b'%' => {
                if i + 3 > b.len() { return None; }
                let h = std::str::from_utf8(&b[i + 1..i + 3]).ok()?;
                out.push(u8::from_str_radix(h, 16).ok()?);
                i += 3;
            }
            c => { out.push(c); i += 1; }
        }
    }
    Some(out)
}

fn parse_query(q: &str) -> Vec<(String, Option<Vec<u8>>, String)> {
    q.split('&').filter(|p| !p.is_empty()).map(|p| {
        let (k, v) = p.split_once('=').unwrap_or((p, ""));
        (String::from_utf8_lossy(&form_decode(k).unwrap_or_default()).to_string(), form_decode(v), v.to_string())
    }).collect()
}

struct Case {
    path_and_query: String,
    own_id: [u8; 20],
    total: u64,
    torrent: Vec<u8>,
    info_hash: [u8; 20],
}

fn gen_case(r: &mut Rng, port: u16) -> (Case, String) {
    let pq = match r.below(26) {
        // fragments that themselves contain '?', '&' or '=' (they are not part of the query)
        21 => "/announce#page?tab=1".to_string(),
        22 => "/announce?k=v#a?b&c=d".to_string(),
        23 => "/a/announce#x&y=z".to_string(),
        24 => "/announce#".to_string(),
        25 => "/announce?#?".to_string(),
        18 => "/announce#frag".to_string(),
        19 => "/announce?k=v#top".to_string(),
        20 => "/a/announce?#".to_string(),
        15 => "/Announce/aBcD".to_string(),
        16 => "/announce?PassKey=Zm9vQmFy&UID=7".to_string(),
        17 => "/TR/Announce.PHP?Key=MiXeD".to_string(),
        9 => "/tr/announce/".to_string(),
        10 => "/announce/?k=v".to_string(),
        11 => "/announce?compact".to_string(),
        12 => "/announce?a=1&nopeerid&b=2".to_string(),
        13 => "/announce?flag&".to_string(),
        14 => "/".to_string(),
        0 => "".to_string(),
        1 => "/announce".to_string(),
        2 => "/a/b/announce.php".to_string(),
        3 => "/announce?k=v".to_string(),
        4 => "/announce?k=v&x=y".to_string(),
        5 => "/announce?".to_string(),
        6 => "/announce?key=a%20b%26c".to_string(),
        7 => "/announce?passkey=0123456789abcdef&uid=42".to_string(),
        _ => "/announce?k=v&".to_string(),
    };
    let announce = format!("http://127.0.0.1:{}{}", port, pq);
    let total: u64 = match r.below(6) { 0 => 0, 1 => 1, 2 => 1 << 40, 3 => (1 << 40) - 1, _ => r.next() >> (24 + r.below(30)) };
    let alnum = b"abcdefghijklmnopqrstuvwxyzABCDEFGHIJKLMNOPQRSTUVWXYZ0123456789";
    let mut own_id = [0u8; 20];
    for b in own_id.iter_mut() { *b = *r.pick(alnum); }
    // info dictionary with random content => info_hash covers all byte values over many cases
    let name = format!("n{}", r.next());
    let mut info = format!("d6:lengthi{}e4:name{}:{}12:piece lengthi16384e6:pieces20:", total, name.len(), name).into_bytes();
    info.extend_from_slice(&r.bytes(20));
    info.push(b'e');
    let mut t = format!("d8:announce{}:{}4:info", announce.len(), announce).into_bytes();
    t.extend_from_slice(&info);
    t.push(b'e');
    (Case { path_and_query: pq, own_id, total, torrent: t, info_hash: sha1(&info) }, announce)
}

pub fn run(ctx: &Ctx) -> Report {
    let mut rep = Report::new();
    rep.need("announces_checked", 100);
    // never go through a proxy for loopback
    std::env::set_var("NO_PROXY", "127.0.0.1,localhost");
    std::env::set_var("no_proxy", "127.0.0.1,localhost");
    for v in ["HTTP_PROXY", "http_proxy", "HTTPS_PROXY", "https_proxy", "ALL_PROXY", "all_proxy"] { std::env::remove_var(v); }
    let rt = tokio::runtime::Builder::new_current_thread().enable_all().build().unwrap();
    let mut r = ctx.rng("c18");
    let n = ctx.count(400, 10_000);
    let mut bytes_seen = [false; 256];
    rt.block_on(async {
        let listener = match TcpListener::bind("127.0.0.1:0").await { Ok(l) => l, Err(e) => { rep.inconclusive(format!("cannot bind loopback: {}", e)); return; } };
        let port = listener.local_addr().unwrap().port();
        for k in 0..n {
            let (case, announce) = gen_case(&mut r, port);
            rep.evaluations += 1;
            let m = match Metainfo::from_bencode(&case.torrent) { Ok(m) => m, Err(e) => { rep.inconclusive(format!("harness torrent rejected: {}", e)); continue; } };
            if *m.info_hash() != case.info_hash { rep.inconclusive("info hash differs from the generator's (C05 territory)"); continue; }
            let (tx, mut rx) = tokio::sync::mpsc::channel(8);
            let mut client = TrackerClient::new(&case.own_id, m.clone(), tx);
            let job = tokio::spawn(async move { client.run().await });
            // accept exactly one request
            let req = tokio::time::timeout(Duration::from_secs(20), async {
                let (mut sock, _) = listener.accept().await.ok()?;
                let mut buf = vec![];
                let mut tmp = [0u8; 4096];
                loop {
                    let n = sock.read(&mut tmp).await.ok()?;
                    if n == 0 { break; }
                    buf.extend_from_slice(&tmp[..n]);
                    if buf.windows(4).any(|w| w == b"\r\n\r\n") { break; }
                }
                let body = b"d8:intervali1800e5:peerslee";
                let resp = format!("HTTP/1.1 200 OK\r\nContent-Type: text/plain\r\nContent-Length: {}\r\nConnection: close\r\n\r\n", body.len());
                let _ = sock.write_all(resp.as_bytes()).await;
                let _ = sock.write_all(body).await;
                let _ = sock.shutdown().await;
                Some(buf)
            }).await;
            let reply = tokio::time::timeout(Duration::from_secs(20), rx.recv()).await;
            job.abort();
            let req = match req { Ok(Some(b)) => b, _ => { rep.inconclusive(format!("no HTTP request arrived within 20 s for {}", announce)); continue; } };
            let text = String::from_utf8_lossy(&req).to_string();
            let w = json!({"announce": announce, "request_head": show(&req[..req.len().min(400)]), "info_hash_hex": hex(&case.info_hash), "peer_id": String::from_utf8_lossy(&case.own_id), "total_length": case.total});
            let line = text.lines().next().unwrap_or("");
            let mut parts = line.split(' ');
            let (method, target) = (parts.next().unwrap_or(""), parts.next().unwrap_or(""));
            let (path, query) = target.split_once('?').unwrap_or((target, ""));
            let no_fragment = case.path_and_query.split('#').next().unwrap_or("");
            let (want_path, want_query) = no_fragment.split_once('?').unwrap_or((no_fragment, ""));
            let want_path = if want_path.is_empty() { "/" } else { want_path };
            let host = text.lines().find_map(|l| { let (k, v) = l.split_once(':')?; if k.eq_ignore_ascii_case("host") { Some(v.trim().to_string()) } else { None } }).unwrap_or_default();
            let pairs = parse_query(query);
            let find = |k: &str| pairs.iter().filter(|p| p.0 == k).collect::<Vec<_>>();
            let mut bad: Option<(String, String)> = None;
            if method != "GET" { bad = Some(("C18:method".into(), format!("method {:?}", method))); }
            else if path != want_path { bad = Some(("C18:wrong-path".into(), format!("request path {:?}, announce path {:?}", path, want_path))); }
            else if host != format!("127.0.0.1:{}", port) { bad = Some(("C18:wrong-host".into(), format!("Host {:?}", host))); }
            else {
                // existing query parameters must survive with their values
                for (k, v, _) in parse_query(want_query) {
                    let got = find(&k);
                    // (the client may add parameters of its own, even one with the same key)
                    if !got.iter().any(|g| g.1 == v) {
                        bad = Some(("C18:announce-query-parameter-lost".into(), format!("announce URL parameter {:?} arrived as {:?}", k, got.iter().map(|g| g.2.clone()).collect::<Vec<_>>())));
                        break;
                    }
                }
            }
            if bad.is_none() {
                let ih = find("info_hash");
                if ih.len() != 1 { bad = Some(("C18:info-hash-parameter-missing".into(), format!("{} info_hash parameters in {:?}", ih.len(), query))); }
                else if ih[0].1.as_deref() != Some(&case.info_hash[..]) { bad = Some(("C18:info-hash-wrong-bytes".into(), format!("info_hash={} decodes to {:?}", ih[0].2, ih[0].1.as_ref().map(|b| hex(b))))); }
            }
            if bad.is_none() {
                let pid = find("peer_id");
                if pid.len() != 1 || pid[0].1.as_deref() != Some(&case.own_id[..]) { bad = Some(("C18:peer-id".into(), format!("peer_id parameter {:?}", pid.iter().map(|g| g.2.clone()).collect::<Vec<_>>()))); }
            }
            if bad.is_none() {
                let p = find("port");
                if p.len() != 1 || p[0].2 != "6881" { bad = Some(("C18:port".into(), format!("port parameter {:?}", p.iter().map(|g| g.2.clone()).collect::<Vec<_>>()))); }
            }
            if bad.is_none() {
                let l = find("left");
                if l.len() != 1 || l[0].2 != case.total.to_string() { bad = Some(("C18:left".into(), format!("left parameter {:?}, total length {}", l.iter().map(|g| g.2.clone()).collect::<Vec<_>>(), case.total))); }
            }
            if bad.is_none() {
                match reply { Ok(Some(TrackerCmd::TrackerResp(_))) => (), other => bad = Some(("C18:good-reply-not-reported".into(), format!("the 200 reply was reported as {:?}", other.map(|o| o.map(|c| format!("{:?}", c).chars().take(80).collect::<String>()))))) }
            }
            match bad {
                Some((sig, what)) => {
                    let sig = if sig == "C18:info-hash-parameter-missing" && want_query.len() > 0 || sig == "C18:announce-query-parameter-lost" { "C18:announce-url-with-query-breaks-info-hash".to_string() } else if sig == "C18:info-hash-parameter-missing" && case.path_and_query.ends_with('?') { "C18:announce-url-with-query-breaks-info-hash".to_string() } else { sig };
                    rep.violation(&sig, what, w)
                }
                None => {
                    rep.count("announces_checked", 1);
                    rep.distinct(&case.torrent);
                    rep.set("announce_url_shapes", case.path_and_query.clone());
                    for b in case.info_hash { bytes_seen[b as usize] = true; }
                    if k % 60 == 0 { rep.sample(w); }
                }
            }
        }
    });
    rep.count("distinct_info_hash_byte_values_seen_this_shard", bytes_seen.iter().filter(|b| **b).count() as u64);
    for (i, b) in bytes_seen.iter().enumerate() { if *b { rep.set("info_hash_byte_values", format!("{:02x}", i)); } }
    rep
}
