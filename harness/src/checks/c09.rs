//! C09 — uploads return exactly the requested stored bytes, or nothing; only while unchoked, only
//! for owned pieces, only for legal ranges; no request crashes the connection task.
//! Wire oracle over the simulation: request fuzzers against a client that owns pieces.

use crate::checks::c02::{addr, interleaving_sig, peer_id};
use crate::sim::peers::{handshake_msg, fuzz_u32, seeder, Hs, SeederCfg};
use crate::sim::{disk_on_ownership, fmt_ev, run_sim, Behaviour, DiskSnap, Entry, Ev, EvKind, Outcome, PeerIo, PeerSpec, SimCfg};
use crate::torrent::{gen_sim_torrent, Torrent};
use crate::util::{panic_site, Ctx, Report, Rng};
use crate::wire::{bitfield_bits, bitfield_bytes, tiling, Msg};
use rdest::verif::Snapshot;
use serde_json::{json, Value};
use std::collections::HashMap;
use std::rc::Rc;

#[derive(Clone, Debug)]
pub struct FuzzCfg {
    pub id: [u8; 20],
    pub incoming: bool,
    pub start_ms: u64,
    pub end_ms: u64,
    pub pace_ms: (u64, u64),
    /// per mille of requests that are fuzzed
    pub fuzz: u64,
    /// per mille of requests sent although we are choked
    pub ignore_choke: u64,
    /// per mille chance per step to go NotInterested for 12 s and come back
    pub sulk: u64,
    /// now and then say NotInterested exactly on a multiple of 10 s of virtual time (when the choke
    /// rotation runs) and come back 0.2-6 s later
    pub sulk_on_tick: bool,
    /// pieces this peer advertises (it never unchokes us; advertising something the client lacks
    /// keeps the client interested, so that our NotInterested does not end the connection)
    pub have: Vec<bool>,
}

/// Request fuzzer: (index, begin, length) boundary-biased, interleaved with NotInterested/Interested,
/// requests before/after Choke, re-requests of the same piece.
pub fn fuzz_leecher(cfg: FuzzCfg) -> Behaviour {
    Box::new(move |mut io: PeerIo| Box::pin(async move {
        let t = io.torrent.clone();
        let n = t.n();
        if cfg.start_ms > 0 { tokio::time::sleep(tokio::time::Duration::from_millis(cfg.start_ms)).await; }
        if cfg.incoming {
            if let Some(h) = handshake_msg(&io, &Hs::Normal, &cfg.id) { if !io.send(&h).await { return; } }
        }
        match io.recv_within(400_000).await { Ok(Some(Msg::Handshake { .. })) => (), _ => { io.close(); return; } }
        if !cfg.incoming {
            if let Some(h) = handshake_msg(&io, &Hs::Normal, &cfg.id) { if !io.send(&h).await { return; } }
        }
        if !io.send(&Msg::Bitfield(bitfield_bytes(&cfg.have))).await { return; }
        if !io.send(&Msg::Interested).await { return; }
        let mut client_has = vec![false; n];
        let mut unchoked = false;
        let mut last_piece: Option<usize> = None;
        let mut sulk_until: Option<u64> = None;
        loop {
            let now = io.log.now_ms();
            if now >= cfg.end_ms { io.close(); return; }
            // (about every tick: whatever else it does in between takes less than 10 s)
            let tick_sulk = cfg.sulk_on_tick && sulk_until.is_none() && (now % 10_000 > 6_500 || io.rng.chance(1, 2));
            let wait = io.rng.range(cfg.pace_ms.0, cfg.pace_ms.1).max(1);
            let until = if tick_sulk { (now / 10_000 + 1) * 10_000 } else { now + wait };
            // drain while waiting
            loop {
                let now = io.log.now_ms();
                if now >= until { break; }
                match io.recv_within(until - now).await {
                    Err(()) => break,
                    Ok(None) => return,
                    Ok(Some(m)) => match m {
                        Msg::Unchoke => unchoked = true,
                        Msg::Choke => unchoked = false,
                        Msg::Bitfield(b) => client_has = bitfield_bits(&b, n),
                        Msg::Have(i) => { if (i as usize) < n { client_has[i as usize] = true; } }
                        _ => (),
                    },
                }
            }
            if tick_sulk {
                if !io.send(&Msg::NotInterested).await { return; }
                sulk_until = Some(io.log.now_ms() + io.rng.range(200, 6_000));
                continue;
            }
            if let Some(u) = sulk_until {
                if io.log.now_ms() >= u { sulk_until = None; if !io.send(&Msg::Interested).await { return; } } else { continue; }
            }
            if io.rng.below(1000) < cfg.sulk {
                if !io.send(&Msg::NotInterested).await { return; }
                sulk_until = Some(io.log.now_ms() + 12_000 + io.rng.below(9_000));
                continue;
            }
            if io.rng.chance(1, 40) { if !io.send(&Msg::KeepAlive).await { return; } }
            let allowed = unchoked || io.rng.below(1000) < cfg.ignore_choke;
            if !allowed { continue; }
            let owned: Vec<usize> = (0..n).filter(|i| client_has[*i]).collect();
            let fuzz = io.rng.below(1000) < cfg.fuzz || owned.is_empty();
            let pl = t.piece_len as u32;
            let (i, b, l) = if fuzz {
                let i = match io.rng.below(8) { 0 => n as u32, 1 => u32::MAX, 2 => (n as u32).wrapping_sub(1), 3 => 0, _ => match last_piece { Some(p) if io.rng.chance(1, 2) => p as u32, _ => io.rng.below(n as u64) as u32 } };
                let b = fuzz_u32(&mut io.rng, pl);
                let l = match io.rng.below(5) { 0 => (u32::MAX - b).wrapping_add(io.rng.below(4) as u32), 1 => pl.wrapping_sub(b), 2 => pl.wrapping_sub(b).wrapping_add(1), _ => fuzz_u32(&mut io.rng, pl) };
                (i, b, l)
            } else {
                let i = match last_piece { Some(p) if client_has[p] && io.rng.chance(3, 5) => p, _ => *io.rng.pick(&owned) };
                let tl = tiling(t.piece_len_of(i));
                let (b, l) = *io.rng.pick(&tl);
                // sub-ranges are legal too
                if io.rng.chance(1, 4) && l > 2 { let off = io.rng.below(l as u64 - 1) as u32; (i as u32, b + off, 1 + io.rng.below((l - off - 1) as u64) as u32) } else { (i as u32, b, l) }
            };
            if (i as usize) < n { last_piece = Some(i as usize); }
            if !io.send(&Msg::Request(i, b, l)).await { return; }
        }
    }))
}

pub struct Finding { pub sig: String, pub what: String, pub at_seq: u64 }

pub fn check_uploads(t: &Torrent, o: &Outcome, stats: &mut HashMap<&'static str, u64>) -> Option<Finding> {
    // per connection state
    struct C { outstanding: Vec<(u32, u32, u32)>, last_choke_frame: Option<bool>, hs_ok: bool, unchoke_decided_since_choke_frame: bool }
    let mut conns: HashMap<(String, u32), C> = HashMap::new();
    let mut snap: Option<Rc<Snapshot>> = None;
    for (k, e) in o.events.iter().enumerate() {
        let key = (e.addr.clone(), e.conn);
        match &e.kind {
            EvKind::Mgr { after, .. } => {
                // an unchoke decision of the manager (am_choked true -> false) for a connection
                if let Some(prev) = &snap {
                    for p in &after.peers {
                        if !p.am_choked && prev.peers.iter().find(|x| x.addr == p.addr).map(|x| x.am_choked).unwrap_or(true) {
                            for (k2, c) in conns.iter_mut() { if k2.0 == p.addr { c.unchoke_decided_since_choke_frame = true; } }
                        }
                    }
                }
                snap = Some(after.clone())
            }
            EvKind::PeerSent { msg: Some(Msg::Request(i, b, l)), .. } => {
                conns.entry(key).or_insert(C { outstanding: vec![], last_choke_frame: None, hs_ok: false, unchoke_decided_since_choke_frame: false }).outstanding.push((*i, *b, *l));
                *stats.entry("requests_sent_by_peers").or_default() += 1;
            }
            EvKind::Send { msg, .. } => {
                let c = conns.entry(key).or_insert(C { outstanding: vec![], last_choke_frame: None, hs_ok: false, unchoke_decided_since_choke_frame: false });
                match msg {
                    Msg::Choke => { c.last_choke_frame = Some(true); c.unchoke_decided_since_choke_frame = false; }
                    Msg::Unchoke => c.last_choke_frame = Some(false),
                    Msg::Handshake { .. } => c.hs_ok = true,
                    Msg::Piece(i, b, data) => {
                        *stats.entry("pieces_served").or_default() += 1;
                        let l = data.len() as u32;
                        let pos = c.outstanding.iter().position(|r| *r == (*i, *b, l));
                        match pos {
                            None => return Some(Finding { sig: "C09:answer-without-matching-request".into(), what: format!("Piece({},{},len={}) sent to {} but no unanswered request for exactly that range exists (outstanding: {:?})", i, b, l, e.addr, c.outstanding.iter().rev().take(5).collect::<Vec<_>>()), at_seq: e.seq }),
                            Some(p) => { c.outstanding.remove(p); }
                        }
                        if l as usize > 16384 {
                            return Some(Finding { sig: "C09:block-longer-than-16KiB".into(), what: format!("{} bytes served in one block to {}", l, e.addr), at_seq: e.seq });
                        }
                        let iu = *i as usize;
                        if iu >= t.n() || (*b as u64 + l as u64) > t.piece_len_of(iu) as u64 {
                            return Some(Finding { sig: "C09:range-outside-piece".into(), what: format!("Piece({},{},len={}) is outside piece of length {}", i, b, l, if iu < t.n() { t.piece_len_of(iu) } else { 0 }), at_seq: e.seq });
                        }
                        if &t.piece(iu)[*b as usize..(*b + l) as usize] != &data[..] {
                            return Some(Finding { sig: "C09:wrong-bytes".into(), what: format!("Piece({},{},len={}) does not carry content[{}][{}..{}]", i, b, l, i, b, b + l), at_seq: e.seq });
                        }
                        let disk: Option<&DiskSnap> = match o.events.get(k + 1).map(|x| &x.kind) { Some(EvKind::Disk { snap }) => Some(snap), _ => None };
                        if let Some(d) = disk {
                            if !d.valid.contains(&iu) {
                                return Some(Finding { sig: "C09:served-piece-not-owned".into(), what: format!("piece {} served to {} without a verified file on disk", i, e.addr), at_seq: e.seq });
                            }
                        }
                        // unchoked? judged against both views (a request racing with an Unchoke in flight is no alarm)
                        let mgr_choked = snap.as_ref().and_then(|s| s.peers.iter().find(|p| p.addr == e.addr)).map(|p| p.am_choked);
                        let wire_choked = c.last_choke_frame.unwrap_or(true);
                        if mgr_choked == Some(true) && wire_choked {
                            let sig = if c.last_choke_frame == Some(true) { "C09:served-after-choke" } else { "C09:served-while-never-unchoked" };
                            return Some(Finding { sig: sig.into(), what: format!("Piece({},{},len={}) sent to {} although the manager has it choked and the last choke-state frame written to it is {}", i, b, l, e.addr, if c.last_choke_frame.is_some() { "Choke" } else { "none" }), at_seq: e.seq });
                        }
                        // after a Choke frame nothing may be served until the manager decides to unchoke
                        // again (only then can a request race with the Unchoke frame that is on its way)
                        if c.last_choke_frame == Some(true) && !c.unchoke_decided_since_choke_frame {
                            return Some(Finding { sig: "C09:served-after-choke".into(), what: format!("Piece({},{},len={}) sent to {} although Choke was the last choke-state frame written to it and the manager has not decided to unchoke it since (manager's view: am_choked={:?})", i, b, l, e.addr, mgr_choked), at_seq: e.seq });
                        }
                        if !c.hs_ok {
                            return Some(Finding { sig: "C09:served-before-own-handshake".into(), what: format!("data sent to {} before the client's handshake", e.addr), at_seq: e.seq });
                        }
                    }
                    _ => (),
                }
            }
            _ => (),
        }
    }
    let refused: u64 = conns.values().map(|c| c.outstanding.len() as u64).sum();
    *stats.entry("requests_refused").or_default() += refused;
    None
}

pub struct Scenario { pub cfg: SimCfg, pub desc: Value }

pub fn gen_scenario(r: &mut Rng, seed: u64) -> Scenario {
    let small = r.chance(1, 3);
    let torrent = Rc::new(gen_sim_torrent(r, 8, small));
    let n = torrent.n();
    let mut peers = vec![];
    let mut pdesc = vec![];
    // a fast seeder gives the client its pieces first (sometimes only some of them)
    let have: Vec<bool> = if n > 1 && r.chance(2, 3) { (0..n).map(|i| i == 0 || (i != n - 1 && r.chance(2, 3))).collect() } else { vec![true; n] };
    let withheld: Vec<bool> = have.iter().map(|h| !*h).collect();
    let mut s = SeederCfg::honest(peer_id(0), have.clone());
    s.unchoke_after_ms = Some(0);
    s.idle_close_ms = 200_000;
    s.request_back = *r.pick(&[0u64, 0, 500, 1000]);
    let s2 = s.clone();
    pdesc.push(json!({"addr": addr(0), "persona": "seeder", "asks_back_permille": s.request_back, "pieces": have.iter().map(|b| if *b { '1' } else { '0' }).collect::<String>()}));
    peers.push(PeerSpec { addr: addr(0), id: peer_id(0), entry: Entry::Dialled { from_announce: 0 }, make: Box::new(move |nth| if nth > 1 { None } else { Some(seeder(s2.clone())) }), chunk: 0, pipe: 1 << 20 });
    let n_in = r.range(1, 4) as usize;
    let n_dial = match r.below(3) { 0 => 0, 1 => r.range(1, 4) as usize, _ => r.range(8, 11) as usize };
    let n_in = if n_dial >= 8 { r.range(2, 4) as usize } else { n_in };
    let dur = r.range(35_000, 80_000);
    for j in 0..n_in + n_dial {
        let k = 1 + j;
        let incoming = j < n_in;
        let crowded = n_in + n_dial > 10;
        let c = if crowded && r.chance(4, 5) {
            // long-lived, mostly well-behaved downloaders competing for the 10 upload slots; they keep
            // asking after having been choked
            FuzzCfg { id: peer_id(k), incoming, start_ms: r.range(200, 3000), end_ms: dur - 2000, pace_ms: match r.below(3) { 0 => (20, 300), 1 => (100, 1500), _ => (500, 4000) }, fuzz: *r.pick(&[0u64, 0, 5]), ignore_choke: *r.pick(&[300u64, 1000]), sulk: 0, sulk_on_tick: false, have: if r.chance(1, 2) { withheld.clone() } else { vec![false; n] } }
        } else {
            FuzzCfg { id: peer_id(k), incoming, start_ms: r.range(500, 4000), end_ms: dur - 2000, pace_ms: match r.below(3) { 0 => (20, 300), 1 => (100, 1500), _ => (500, 4000) }, fuzz: *r.pick(&[0u64, 30, 100, 400]), ignore_choke: *r.pick(&[0u64, 200, 1000]), sulk: *r.pick(&[0u64, 20, 60, 150]), sulk_on_tick: false, have: if r.chance(2, 3) { withheld.clone() } else { vec![false; n] } }
        };
        pdesc.push(json!({"addr": addr(k), "persona": "request-fuzzer", "incoming": incoming, "fuzz_permille": c.fuzz, "ignore_choke_permille": c.ignore_choke, "sulk_permille": c.sulk, "advertises_withheld_pieces": c.have.iter().any(|b| *b), "pace_ms": [c.pace_ms.0, c.pace_ms.1]}));
        let c2 = c.clone();
        peers.push(PeerSpec { addr: addr(k), id: peer_id(k), entry: if incoming { Entry::Incoming { at_ms: 0 } } else { Entry::Dialled { from_announce: 0 } }, make: Box::new(move |nth| if nth > 1 { None } else { Some(fuzz_leecher(c2.clone())) }), chunk: *r.pick(&[0usize, 0, 5]), pipe: 1 << 20 });
    }
    let desc = json!({"seed": seed, "piece_length": torrent.piece_len, "pieces": n, "virtual_ms": dur, "peers": pdesc});
    Scenario { cfg: SimCfg { torrent, peers, tracker: vec![], failpoints: if r.chance(1, 3) { Some(r.next()) } else { None }, max_virtual_ms: dur, stop_on_extract: false, linger_ms: 0, disk_on: disk_on_ownership, seed, pre: None, tracker_fn: None, driver: None }, desc }
}

pub fn trace_for(o: &Outcome, a: &str, at_seq: u64) -> Vec<String> {
    let v: Vec<&Ev> = o.events.iter().filter(|e| e.seq <= at_seq.saturating_add(1) && (e.addr == a || matches!(&e.kind, EvKind::Mgr { kind, .. } if *kind == "Rotation"))).filter(|e| !matches!(&e.kind, EvKind::RecvWait { .. } | EvKind::Disk { .. })).filter(|e| !matches!(&e.kind, EvKind::Mgr { kind, .. } if *kind == "SyncStats")).collect();
    let start = v.len().saturating_sub(22);
    v[start..].iter().map(|e| fmt_ev(e)).collect()
}

pub fn run(ctx: &Ctx) -> Report {
    let mut rep = Report::new();
    if ctx.want("direct") {
        // the manager's decision, asked directly after every step of choke/interest/rotation histories
        super::c13::run_c09_direct(ctx, &mut rep);
    }
    rep.need("pieces_served", 1000);
    rep.need("requests_refused", 1000);
    let mut r = ctx.rng("c09");
    let n = ctx.count(1_500, 40_000);
    for k in 0..n {
        let seed = ctx.scenario_seed(r.next());
        let mut sr = Rng::new(seed);
        let sc = gen_scenario(&mut sr, seed);
        let t = sc.cfg.torrent.clone();
        let desc = sc.desc.clone();
        rep.evaluations += 1;
        let o = run_sim(sc.cfg, &ctx.scratch, 180);
        if o.watchdog { rep.inconclusive(format!("watchdog (scenario seed {})", seed)); continue; }
        rep.distinct(&interleaving_sig(&o));
        rep.count("rotations", o.mgr().filter(|(_, k, _)| *k == "Rotation").count() as u64);
        rep.count("choke_frames_written", o.events.iter().filter(|e| matches!(&e.kind, EvKind::Send { msg: Msg::Choke, .. })).count() as u64);
        // no request may crash a connection task
        if let Some(p) = o.panics.first() {
            let last_req = o.events.iter().rev().find_map(|e| match &e.kind { EvKind::PeerSent { msg: Some(Msg::Request(i, b, l)), .. } => Some(format!("Request({},{},{}) from {}", i, b, l, e.addr)), _ => None });
            let sig = if p.contains("overflow") && p.contains("request.rs") { "C09:panic:request-offset-plus-length-overflows-u32".to_string() } else { format!("C09:panic:{}", panic_site(p)) };
            rep.violation(&sig, p.clone(), json!({"scenario": desc, "last_request_before_end": last_req, "all_panics": o.panics}));
            continue;
        }
        if std::env::var("VH_DEBUG").is_ok() {
            for (e, kind, after) in o.mgr() { if kind == "Rotation" { eprintln!("t={} rotation: {}", e.ms, after.peers.iter().map(|p| format!("{}:{}{} up={:?} down={:?}", p.addr, if p.am_choked {"c"} else {"u"}, if p.interested {"I"} else {"-"}, p.uploaded_rate, p.download_rate)).collect::<Vec<_>>().join(" | ")); } }
        }
        let mut stats = HashMap::new();
        let f = check_uploads(&t, &o, &mut stats);
        for (k2, v) in &stats { rep.count(k2, *v); }
        match f {
            None => { if k % 150 == 0 { rep.sample(json!({"scenario": desc, "observed": stats.iter().map(|(a, b)| (a.to_string(), *b)).collect::<HashMap<String, u64>>() })); } }
            Some(f) => {
                let a = o.events.iter().find(|e| e.seq == f.at_seq).map(|e| e.addr.clone()).unwrap_or_default();
                rep.violation(&f.sig, f.what, json!({"scenario": desc, "trace": trace_for(&o, &a, f.at_seq)}))
            }
        }
    }
    rep
}
