use crate::util::{Ctx, Report};

pub mod c15;
pub mod c16;

pub fn run(id: &str, ctx: &Ctx) -> Report {
    match id {
        "C15" => c15::run(ctx),
        "C16" => c16::run(ctx),
        _ => {
            eprintln!("unknown check {}", id);
            std::process::exit(2)
        }
    }
}

/// Probes that may abort the process (stack exhaustion); run as a child, judged by exit status.
pub fn probe(args: &[String]) {
    match args.first().map(|s| s.as_str()) {
        Some("deep-nest") => c16::probe_deep(args),
        _ => std::process::exit(2),
    }
}
