use crate::util::{Ctx, Report};

pub mod c01;
pub mod c02;
pub mod c03;
pub mod c05;
pub mod c06;
pub mod c07;
pub mod c08;
pub mod c09;
pub mod c10;
pub mod c12;
pub mod c13;
pub mod c14;
pub mod c15;
pub mod c17;
pub mod c18;
pub mod c19;
pub mod c20;
pub mod c16;

pub fn run(id: &str, ctx: &Ctx) -> Report {
    match id {
        "C01" => c01::run(ctx),
        "C11" => c01::run_c11(ctx),
        "C02" => c02::run(ctx),
        "C03" => c03::run(ctx),
        "C04" => c03::run_c04(ctx),
        "C05" => c05::run(ctx),
        "C06" => c06::run(ctx),
        "C07" => c07::run(ctx),
        "C17" => c17::run(ctx),
        "C20" => c20::run(ctx),
        "C18" => c18::run(ctx),
        "C19" => c19::run(ctx),
        "C08" => c08::run(ctx),
        "C09" => c09::run(ctx),
        "C10" => c10::run(ctx),
        "C12" => c12::run(ctx),
        "C13" => c13::run(ctx),
        "C14" => c14::run(ctx),
        "C15" => c15::run(ctx),
        "C16" => c16::run(ctx),
        _ => {
            eprintln!("unknown check {}", id);
            std::process::exit(2)
        }
    }
}

/// Probes that may abort the process (stack exhaustion); run as a child, judged by exit status.
pub fn probe(args: &[String]) {
    match args.first().map(|s| s.as_str()) {
        Some("deep-nest") => c16::probe_deep(args),
        Some("decode-hex") => c16::probe_decode_hex(args),
        Some("c02-debug") => {
            let scratch = std::path::PathBuf::from("/dev/shm/vh-debug");
            let _ = std::fs::create_dir_all(&scratch);
            let seed: u64 = args[1].parse().unwrap();
            let mut sr = crate::util::Rng::new(seed);
            let sc = c02::gen_scenario(&mut sr, seed);
            let mut o = crate::sim::run_sim(sc.cfg, &scratch, 120);
            // internal randomness: repeat until the run fails to complete (at most 40 attempts)
            for _ in 0..40 {
                if o.extractor.is_none() { break; }
                let mut sr = crate::util::Rng::new(seed);
                let sc = c02::gen_scenario(&mut sr, seed);
                o = crate::sim::run_sim(sc.cfg, &scratch, 120);
            }
            println!("extractor: {:?}", o.extractor);
            let (from, to): (u64, u64) = (args[2].parse().unwrap(), args[3].parse().unwrap());
            for e in o.events.iter().filter(|e| e.ms >= from && e.ms <= to).filter(|e| !matches!(e.kind, crate::sim::EvKind::RecvWait { .. })) { println!("{}", crate::sim::fmt_ev(e).chars().take(260).collect::<String>()); }
        }
        Some("c20-debug") => {
            let scratch = std::path::PathBuf::from("/dev/shm/vh-debug");
            let _ = std::fs::create_dir_all(&scratch);
            let ctx = Ctx { seed: 1, shard: 0, nshards: 1, tier: crate::util::Tier::Quick, scale: 1.0, scratch, parts: vec![], only_seed: None, repeat: 1 };
            c20::debug_one(&ctx, args[1].parse().unwrap(), args[2].parse().unwrap(), args[3].parse().unwrap());
        }
        _ => std::process::exit(2),
    }
}
