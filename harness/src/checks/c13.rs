//! C13 — piece choice is rarest-first among what the peer can give (direct-drive of the real
//! `choose_piece_index` through hooks; reference chooser as oracle).
//! C14 (direct part) — upload slots bounded / choking policy / messages mirror state, driven
//! through the real manager commands.

use crate::util::{catch, hash64, panic_site, Ctx, Report, Rng, Tier};
use rdest::verif::*;
use rdest::{Metainfo, Session};
use serde_json::json;
use std::collections::{BTreeMap, HashMap};
use tokio::sync::oneshot;

pub fn dummy_metainfo(n: usize) -> Metainfo {
    let mut t = format!("d8:announce3:URL4:infod6:lengthi{}e4:name1:x12:piece lengthi16e6:pieces{}:", 16 * n, 20 * n).into_bytes();
    for i in 0..n {
        let mut h = [0u8; 20];
        h[..8].copy_from_slice(&(i as u64).to_be_bytes());
        h[19] = 1;
        t.extend_from_slice(&h);
    }
    t.extend_from_slice(b"ee");
    Metainfo::from_bencode(&t).unwrap()
}

fn rt() -> tokio::runtime::Runtime {
    tokio::runtime::Builder::new_current_thread().enable_time().start_paused(true).build().unwrap()
}

pub async fn send_bitfield(s: &mut Session, addr: &str, bits: &Vec<bool>) -> BitfieldCmd {
    let (tx, rx) = oneshot::channel();
    s.verif_handle(PeerCmd::RecvBitfield { addr: addr.into(), bitfield: Bitfield::from_vec(bits), resp_ch: tx }).await.unwrap();
    rx.await.unwrap()
}

/// Reference: the set of legal picks (empty = must pick nothing).
pub fn legal_picks(status: &[Status], peers: &[Vec<bool>], asking: usize) -> Vec<usize> {
    let n = status.len();
    let missing = status.iter().filter(|s| **s != Status::Have).count();
    let endgame = missing < 10;
    let avail = |i: usize| peers.iter().filter(|p| p[i]).count();
    let d: Vec<usize> = (0..n)
        .filter(|&i| peers[asking][i] && status[i] != Status::Have && (endgame || status[i] == Status::Missing))
        .collect();
    let min = d.iter().map(|&i| avail(i)).min();
    match min {
        None => vec![],
        Some(m) => d.into_iter().filter(|&i| avail(i) == m).collect(),
    }
}

fn status_of(code: u8) -> Status {
    match code { 0 => Status::Missing, 1 => Status::Reserved(1), _ => Status::Have }
}

pub fn run(ctx: &Ctx) -> Report {
    let mut rep = Report::new();
    rep.need("choices_checked", 10_000);
    let rt = rt();
    let mut tie_seen: HashMap<u64, std::collections::BTreeSet<usize>> = HashMap::new();
    let mut tie_sizes: HashMap<u64, usize> = HashMap::new();

    let mut judge = |rep: &mut Report, status: &Vec<Status>, peers: &Vec<Vec<bool>>, asking: usize, got: Result<Option<usize>, String>, tie_seen: &mut HashMap<u64, std::collections::BTreeSet<usize>>, tie_sizes: &mut HashMap<u64, usize>| {
        let legal = legal_picks(status, peers, asking);
        let missing = status.iter().filter(|s| **s != Status::Have).count();
        let w = json!({"statuses": status.iter().map(|s| match s { Status::Missing => "M".to_string(), Status::Have => "H".to_string(), Status::Reserved(k) => format!("R{}", k) }).collect::<Vec<_>>().join(""),
                       "peer_pieces": peers.iter().map(|p| p.iter().map(|b| if *b {'1'} else {'0'}).collect::<String>()).collect::<Vec<_>>(), "asking_peer": asking, "legal_picks": legal, "missing": missing});
        match got {
            Err(p) => rep.violation(&format!("C13:panic:{}", panic_site(&p)), p, w),
            Ok(None) => {
                if legal.is_empty() { rep.count("choices_checked", 1); rep.count("picked_nothing", 1); }
                else { rep.violation("C13:picked-nothing-though-candidates-exist", "no piece chosen although the peer advertises a wanted piece", w) }
            }
            Ok(Some(i)) => {
                if legal.contains(&i) {
                    rep.count("choices_checked", 1);
                    rep.count(if missing < 10 { "endgame_side" } else { "normal_side" }, 1);
                    if legal.len() > 1 {
                        let key = hash64(&(w["statuses"].as_str(), w["peer_pieces"].to_string(), asking));
                        if tie_seen.len() < 20000 || tie_seen.contains_key(&key) {
                            tie_seen.entry(key).or_default().insert(i);
                            tie_sizes.insert(key, legal.len());
                        }
                    }
                } else {
                    let sig = if i >= status.len() { "C13:index-out-of-range" }
                        else if !peers[asking][i] { "C13:picked-piece-peer-does-not-have" }
                        else if status[i] == Status::Have { "C13:picked-owned-piece" }
                        else if missing >= 10 && status[i] != Status::Missing { "C13:picked-reserved-piece-outside-endgame" }
                        else { "C13:not-rarest" };
                    rep.violation(sig, format!("picked {} which is not a legal rarest-first choice", i), w);
                }
            }
        }
    };

    // (1) exhaustive: <= 4 pieces x 3 statuses x <= 3 peers x all bitfields (all below the end-game threshold)
    if ctx.want("exhaustive") {
        let (maxn, reps) = if ctx.scale < 0.2 { (3usize, 1) } else if ctx.tier == Tier::Quick { (4, 2) } else { (4, 4) };
        let mut idx = 0u64;
        for n in 1..=maxn {
            for npeers in 1..=3usize {
                let nstat = 3u32.pow(n as u32);
                let nbits = 1u32 << (n * npeers);
                for sv in 0..nstat {
                    idx += 1;
                    if idx % ctx.nshards as u64 != ctx.shard as u64 { continue; }
                    let status: Vec<Status> = (0..n).map(|i| status_of(((sv / 3u32.pow(i as u32)) % 3) as u8)).collect();
                    rt.block_on(async {
                        let mut s = Session::new(dummy_metainfo(n), *b"AAAAABBBBBCCCCCDDDDD");
                        for p in 0..npeers { s.verif_add_peer(&format!("p{}", p), None); }
                        for bv in 0..nbits {
                            let peers: Vec<Vec<bool>> = (0..npeers).map(|p| (0..n).map(|i| bv & (1 << (p * n + i)) != 0).collect()).collect();
                            for p in 0..npeers { let _ = send_bitfield(&mut s, &format!("p{}", p), &peers[p]).await; }
                            // handle_bitfield never touches statuses; set them after
                            for i in 0..n { s.verif_set_status(i, status[i].clone()); }
                            for asking in 0..npeers {
                                for _ in 0..reps {
                                    let got = s.verif_choose(&format!("p{}", asking)).await;
                                    rep.evaluations += 1;
                                    judge(&mut rep, &status, &peers, asking, Ok(got), &mut tie_seen, &mut tie_sizes);
                                }
                            }
                            rep.distinct_enumerated += 1;
                        }
                    });
                }
            }
        }
        rep.exhaustive_parts.push(format!("all (status vector, peer set, advertised sets) with 1..={} pieces, statuses in {{Missing,Reserved,Have}}, 1..=3 peers", maxn));
    }

    // (2) random larger states on both sides of the end-game threshold
    if ctx.want("random") {
        let mut r = ctx.rng("c13");
        let n_states = ctx.count(100_000, 1_500_000);
        for k in 0..n_states {
            let n = r.range(8, 40) as usize;
            let npeers = r.range(1, 12) as usize;
            // choose the number of not-owned pieces around the threshold
            let missing_target = match r.below(4) { 0 => r.range(8, 12) as usize, 1 => r.range(0, 9) as usize, _ => r.range(0, n as u64) as usize }.min(n);
            let mut status: Vec<Status> = vec![Status::Have; n];
            let mut order: Vec<usize> = (0..n).collect();
            r.shuffle(&mut order);
            for &i in order.iter().take(missing_target) {
                status[i] = if r.chance(1, 3) { Status::Reserved(r.range(1, 3) as usize) } else { Status::Missing };
            }
            let density = r.range(1, 9);
            let mut peers: Vec<Vec<bool>> = (0..npeers).map(|_| (0..n).map(|_| r.chance(density, 10)).collect()).collect();
            // some pieces are announced by Have messages later on, at a moment when the piece is being
            // fetched from somebody else (or owned for the moment); the advertised set is bitfield + Haves
            let mut later: Vec<(usize, usize, Status)> = vec![];
            if r.chance(1, 2) {
                for _ in 0..r.range(1, 6) {
                    let (p, i) = (r.usize(npeers), r.usize(n));
                    if !peers[p][i] { later.push((p, i, match r.below(3) { 0 => Status::Missing, 1 => Status::Reserved(1), _ => Status::Reserved(2) })); }
                }
            }
            for (p, i, _) in &later { peers[*p][*i] = true; }
            let bitfields: Vec<Vec<bool>> = (0..npeers).map(|p| (0..n).map(|i| peers[p][i] && !later.iter().any(|l| l.0 == p && l.1 == i)).collect()).collect();
            if !later.is_empty() { rep.count("states_with_pieces_announced_by_have", 1); }
            let res = catch(|| rt.block_on(async {
                let mut s = Session::new(dummy_metainfo(n), *b"AAAAABBBBBCCCCCDDDDD");
                for p in 0..npeers { s.verif_add_peer(&format!("p{}", p), None); let _ = send_bitfield(&mut s, &format!("p{}", p), &bitfields[p]).await; }
                for (p, i, st) in &later {
                    if status[*i] == Status::Have { continue; }
                    s.verif_set_status(*i, st.clone());
                    let (tx, rx) = oneshot::channel();
                    s.verif_handle(PeerCmd::RecvHave { addr: format!("p{}", p), piece_index: *i, resp_ch: tx }).await.unwrap();
                    let _ = rx.await;
                }
                for i in 0..n { s.verif_set_status(i, status[i].clone()); }
                let mut out = vec![];
                for _ in 0..4 {
                    let asking = r.usize(npeers);
                    out.push((asking, s.verif_choose(&format!("p{}", asking)).await));
                }
                out
            }));
            rep.distinct(&hash64(&(format!("{:?}", status), &peers)));
            match res {
                Err(p) => { rep.evaluations += 1; judge(&mut rep, &status, &peers, 0, Err(p), &mut tie_seen, &mut tie_sizes) }
                Ok(out) => for (asking, got) in out { rep.evaluations += 1; judge(&mut rep, &status, &peers, asking, Ok(got), &mut tie_seen, &mut tie_sizes); }
            }
            if k % 5000 == 0 {
                rep.sample(json!({"pieces": n, "peers": npeers, "not_owned": missing_target, "statuses": status.iter().map(|s| match s { Status::Missing => 'M', Status::Have => 'H', _ => 'R' }).collect::<String>()}));
            }
        }
    }
    // (3) the real manager in the simulation, judged against ground truth: outside end game a piece
    // is not handed to a peer while another connected peer that does not choke us is fetching it
    // (whatever the status vector says about that piece)
    if ctx.want("sim") {
        let mut r = ctx.rng("c13-sim");
        for _ in 0..ctx.count(1_200, 30_000) {
            let seed = ctx.scenario_seed(r.next());
            let mut sr = Rng::new(seed);
            let sc = crate::checks::c12::gen_scenario(&mut sr, seed);
            let desc = sc.desc.clone();
            rep.evaluations += 1;
            let o = crate::sim::run_sim(sc.cfg, &ctx.scratch, 120);
            if o.watchdog { rep.inconclusive(format!("watchdog (scenario seed {})", seed)); continue; }
            if let Some(p) = o.panics.first() { rep.inconclusive(format!("a task panicked ({}): {}", panic_site(p), p)); continue; }
            let mut prev: Option<std::rc::Rc<rdest::verif::Snapshot>> = None;
            let mut found: Option<(String, u64)> = None;
            for (e, kind, after) in o.mgr() {
                if let Some(pv) = &prev {
                    let missing = after.statuses.iter().filter(|s| **s != Status::Have).count();
                    for p in &after.peers {
                        let before = pv.peers.iter().find(|x| x.addr == p.addr);
                        let newly = match (p.piece_index, before) { (Some(i), Some(b)) => b.piece_index != Some(i) || (kind == "RecvUnchoke" && b.choked && e.addr == p.addr), (Some(_), None) => true, _ => false };
                        if let (true, Some(i)) = (newly, p.piece_index) {
                            rep.count("assignments_judged_in_simulation", 1);
                            if missing >= 10 {
                                rep.count("assignments_outside_end_game", 1);
                                if let Some(q) = after.peers.iter().find(|q| q.addr != p.addr && q.piece_index == Some(i) && !q.choked) {
                                    found = Some((format!("after {} {}: piece {} handed to {} while {} (not choking us) is fetching it; {} pieces still lacking", kind, e.addr, i, p.addr, q.addr, missing), e.seq));
                                }
                            }
                        }
                    }
                }
                if found.is_some() { break; }
                prev = Some(after.clone());
            }
            rep.distinct(&hash64(&desc.to_string()));
            if let Some((what, seq)) = found {
                rep.violation("C13:picked-piece-being-fetched-outside-endgame", what, json!({"scenario": desc, "trace": crate::checks::c12::witness_trace(&o, seq)}));
            }
        }
    }
    // tie-break coverage: in how many tie classes (queried >= twice) was more than one member picked
    let multi = tie_seen.values().filter(|s| s.len() > 1).count();
    rep.count("tie_classes_observed", tie_seen.len() as u64);
    rep.count("tie_classes_with_several_distinct_picks", multi as u64);
    rep
}

// ------------------------------------------------------------------------------------------------
// C14 direct-drive

#[derive(Clone, Debug)]
enum Op { Add(usize), Interested(usize), NotInterested(usize), Stats(usize, u32, u32), Rotate }

struct Fold { choked: bool, bad: Option<String> }

pub fn run_c14_direct(ctx: &Ctx, rep: &mut Report) { run_histories(ctx, rep, false) }

/// The same histories with a block request from every connected peer after every step (C09: the
/// manager lets a request through only for a peer it has unchoked and a piece it owns).
pub fn run_c09_direct(ctx: &Ctx, rep: &mut Report) { run_histories(ctx, rep, true) }

fn run_histories(ctx: &Ctx, rep: &mut Report, probe_requests: bool) {
    let rt = rt();
    // a departing peer of a client that owns everything starts the extractor: keep its files here
    let _ = std::env::set_current_dir(&ctx.scratch);
    // a departing peer makes the manager re-announce: keep that away from the network
    script_tracker(Some(Box::new(|_| Err("tracker down (scripted)".to_string()))));
    let mut r = ctx.rng("c14");
    if !probe_requests {
        rep.need("rotations_carried_out", 2000);
        rep.need("snapshots_checked", 20_000);
    } else {
        rep.need("request_decisions_checked", 20_000);
    }
    let n_hist = if probe_requests { ctx.count(6_000, 100_000) } else { ctx.count(32_000, 500_000) };
    for h in 0..n_hist {
        let maxpeers = match r.below(4) { 0 => r.range(0, 5) as usize, 1 => r.range(9, 14) as usize, _ => r.range(0, 40) as usize };
        let rounds = r.range(3, 8) as usize;
        let tie_heavy = r.chance(1, 3);
        // which measured rate counts depends on whether the client owns everything: 0 = nothing owned,
        // 1 = everything owned (seeding), 2 = nothing Missing but some pieces only Reserved (still leeching)
        let status_mode = r.below(3);
        let same_rates = r.chance(1, 3);
        // in a third of the histories nobody withdraws interest (so nobody is sent away and, when the
        // client owns everything, no extraction has run yet when the rotations happen)
        let no_departures = r.chance(1, 3);
        // build a history of real commands
        let mut ops: Vec<Op> = vec![];
        let mut added = 0usize;
        for round in 0..rounds {
            let adds = if round == 0 { maxpeers.min(r.range(0, maxpeers as u64 + 1) as usize) } else { r.range(0, 3) as usize };
            for _ in 0..adds { if added < maxpeers { ops.push(Op::Add(added)); added += 1; } }
            if added > 0 {
                for _ in 0..r.range(0, (added as u64) * 2) {
                    let p = r.usize(added);
                    ops.push(match r.below(5) { 0 | 1 => Op::Interested(p), 2 if !no_departures => Op::NotInterested(p), 2 => Op::Interested(p), _ => { let a = if tie_heavy { r.below(3) as u32 * 100 } else { r.below(100_000) as u32 }; let b = if same_rates { a } else if tie_heavy { r.below(3) as u32 * 100 } else { r.below(100_000) as u32 }; Op::Stats(p, a, b) } });
                }
                if r.chance(3, 4) {
                    for p in 0..added { if r.chance(9, 10) { let a = if tie_heavy { r.below(3) as u32 * 100 } else { r.below(100_000) as u32 }; let b = if same_rates { a } else if tie_heavy { r.below(3) as u32 * 100 } else { r.below(100_000) as u32 }; ops.push(Op::Stats(p, a, b)); } }
                }
            }
            ops.push(Op::Rotate);
        }
        rep.evaluations += 1;
        let opsdesc: Vec<String> = ops.iter().map(|o| format!("{:?}", o)).collect();
        let res = catch(|| rt.block_on(async {
            let n = 8;
            let mut s = Session::new(dummy_metainfo(n), *b"AAAAABBBBBCCCCCDDDDD");
            for i in 0..n {
                match status_mode { 1 => s.verif_set_status(i, Status::Have), 2 => s.verif_set_status(i, if i % 3 == 0 { Status::Reserved(1) } else { Status::Have }), _ => () }
            }
            let seeding = status_mode == 1;
            let mut broad = s.verif_subscribe();
            let mut folds: BTreeMap<String, Fold> = BTreeMap::new();
            let mut alive: BTreeMap<usize, bool> = BTreeMap::new();
            let mut viol: Option<(String, String)> = None;
            let mut stats = (0u64, 0u64, 0u64); // snapshots, rotations carried out, max unchoked
            let (mut probes, mut refused_unchoked) = (0u64, 0u64);
            for (step, op) in ops.iter().enumerate() {
                let mut rotated = false;
                match op {
                    Op::Add(p) => {
                        let a = format!("p{}", p);
                        s.verif_add_peer(&a, None);
                        alive.insert(*p, true);
                        folds.insert(a.clone(), Fold { choked: true, bad: None });
                        // in the leeching modes some peers own pieces: the client is then interested in
                        // them and they stay connected after telling us that they are not interested
                        let bits: Vec<bool> = if seeding || (*p % 3 == 0) { vec![false; n] } else { (0..n).map(|i| (i + *p) % 2 == 0).collect() };
                        match send_bitfield(&mut s, &a, &bits).await {
                            BitfieldCmd::SendState { with_am_unchoked, .. } => if with_am_unchoked {
                                let f = folds.get_mut(&a).unwrap();
                                if !f.choked { f.bad = Some("Unchoke sent to an already unchoked peer".into()); }
                                f.choked = false;
                            }
                        }
                    }
                    Op::Interested(p) => if alive.get(p) == Some(&true) { s.verif_handle(PeerCmd::RecvInterested { addr: format!("p{}", p) }).await.unwrap(); },
                    Op::NotInterested(p) => if alive.get(p) == Some(&true) {
                        let (tx, rx) = oneshot::channel();
                        s.verif_handle(PeerCmd::RecvNotInterested { addr: format!("p{}", p), resp_ch: tx }).await.unwrap();
                        if let Ok(NotInterestedCmd::PrepareKill) = rx.await {
                            // the connection task would end and report; do what it does
                            s.verif_handle(PeerCmd::KillReq { addr: format!("p{}", p), reason: "End job normally".into() }).await.unwrap();
                            alive.insert(*p, false);
                            folds.remove(&format!("p{}", p));
                        }
                    },
                    Op::Stats(p, down, up) => if alive.get(p) == Some(&true) {
                        s.verif_handle(PeerCmd::SyncStats { addr: format!("p{}", p), downloaded_rate: Some(*down), uploaded_rate: Some(*up), unexpected_blocks: 0 }).await.unwrap();
                    },
                    Op::Rotate => { s.verif_rotate().await.unwrap(); rotated = true; }
                }
                // messages: fold the broadcast
                while let Ok(cmd) = broad.try_recv() {
                    if let BroadCmd::SendOwnState { am_choked_map } = cmd {
                        for (a, c) in am_choked_map {
                            if let Some(f) = folds.get_mut(&a) {
                                if f.choked == c { f.bad = Some(format!("{} sent to a peer that is already in that state", if c { "Choke" } else { "Unchoke" })); }
                                f.choked = c;
                            }
                        }
                    }
                }
                let snap = s.verif_snapshot();
                stats.0 += 1;
                if probe_requests {
                    for p in &snap.peers {
                        for piece in [0usize, 1] {
                            let (tx, rx) = oneshot::channel();
                            s.verif_handle(PeerCmd::RecvRequest { addr: p.addr.clone(), piece_index: piece, resp_ch: tx }).await.unwrap();
                            let granted = matches!(rx.await, Ok(RequestCmd::LoadAndSendPiece { .. }));
                            let owned = snap.statuses[piece] == Status::Have;
                            probes += 1;
                            if granted && (p.am_choked || !owned) {
                                viol = viol.or(Some(("C09:request-granted-to-choked-peer-or-for-unowned-piece".into(), format!("after step {} {:?} the manager lets {} have piece {} although it has that peer {} and the piece is {:?}: {}", step, op, p.addr, piece, if p.am_choked { "choked" } else { "unchoked" }, snap.statuses[piece], snap.peers.iter().map(|q| format!("{}:{}{}{}", q.addr, if q.am_choked { "c" } else { "u" }, if q.interested { "I" } else { "-" }, if q.optimistic_unchoke { "o" } else { "" })).collect::<Vec<_>>().join(" ")))));
                            }
                            if !granted && !p.am_choked && owned { refused_unchoked += 1; }
                        }
                    }
                }
                let regular = snap.peers.iter().filter(|p| !p.am_choked && !p.optimistic_unchoke).count();
                let optimistic = snap.peers.iter().filter(|p| !p.am_choked && p.optimistic_unchoke).count();
                stats.2 = stats.2.max((regular + optimistic) as u64);
                let state = || snap.peers.iter().map(|p| format!("{}:{}{}{} up={:?} down={:?}", p.addr, if p.am_choked { "c" } else { "u" }, if p.interested { "I" } else { "-" }, if p.optimistic_unchoke { "o" } else { "" }, p.uploaded_rate, p.download_rate)).collect::<Vec<_>>().join(" ");
                if regular > MAX_UNCHOKED {
                    viol = Some(("C14:more-than-10-regular-unchoked".into(), format!("{} peers unchoked (regular slots) after step {} {:?}: {}", regular, step, op, state())));
                } else if optimistic > 1 {
                    viol = Some(("C14:more-than-1-optimistic".into(), format!("{} optimistic unchokes after step {}: {}", optimistic, step, state())));
                }
                // messages mirror state
                for p in &snap.peers {
                    if let Some(f) = folds.get(&p.addr) {
                        if let Some(b) = &f.bad { viol = viol.or(Some(("C14:choke-messages-do-not-alternate".into(), format!("{}: {}", p.addr, b)))); }
                        if f.choked != p.am_choked { viol = viol.or(Some(("C14:messages-disagree-with-state".into(), format!("{}: messages say choked={}, manager says {} after step {} {:?}", p.addr, f.choked, p.am_choked, step, op)))); }
                    }
                }
                if rotated && !snap.peers.is_empty() && snap.peers.iter().all(|p| p.download_rate.is_some() && p.uploaded_rate.is_some()) {
                    stats.1 += 1;
                    for p in &snap.peers {
                        if !p.am_choked && !p.interested {
                            viol = viol.or(Some(("C14:uninterested-peer-left-unchoked".into(), format!("{} unchoked but not interested after rotation at step {}: {}", p.addr, step, state()))));
                        }
                    }
                    // the rate that counts: what the peer gave us while we still lack pieces, what it took
                    // from us once we own everything
                    let rate = |p: &PeerSnap| if seeding { p.download_rate.unwrap() } else { p.uploaded_rate.unwrap() };
                    let min_slot = snap.peers.iter().filter(|p| !p.am_choked && !p.optimistic_unchoke).map(|p| rate(p)).min();
                    if let Some(ms) = min_slot {
                        for p in &snap.peers {
                            if p.am_choked && p.interested && rate(p) > ms {
                                viol = viol.or(Some(("C14:better-interested-peer-left-choked".into(), format!("{} (rate {}) choked while a slot holder has rate {} after rotation at step {} (client owns everything: {}): {}", p.addr, rate(p), ms, step, seeding, state()))));
                            }
                        }
                    }
                }
                if viol.is_some() { break; }
            }
            (viol, stats, probes, refused_unchoked)
        }));
        match res {
            Err(p) => rep.violation(&format!("C14:panic:{}", panic_site(&p)), p, json!({"history": opsdesc})),
            Ok((viol, stats, probes, refused_unchoked)) => {
                if probe_requests { rep.count("request_decisions_checked", probes); rep.count("requests_refused_to_unchoked_peers_for_owned_pieces", refused_unchoked); }
                rep.count("snapshots_checked", stats.0);
                rep.count("rotations_carried_out", stats.1);
                rep.max("unchoked_at_once", stats.2);
                rep.distinct(&hash64(&opsdesc));
                if let Some((sig, what)) = viol {
                    rep.violation(&sig, what, json!({"history": opsdesc, "seed": ctx.seed, "shard": ctx.shard, "history_no": h}));
                } else if h % 2000 == 0 {
                    rep.sample(json!({"history_len": opsdesc.len(), "peers": added, "rounds": rounds, "first_ops": opsdesc.iter().take(12).collect::<Vec<_>>()}));
                }
            }
        }
    }
}
