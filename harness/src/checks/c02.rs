//! C02 — an honest swarm always leads to a complete, identical download (bounded progress in
//! virtual time), without the session or a surviving connection crashing or hanging.

use crate::sim::peers::{seeder, ChokeAct, Disc, SeederCfg};
use crate::sim::{disk_never, run_sim, Entry, Outcome, PeerSpec, SimCfg, TrackerStep};
use crate::torrent::{gen_sim_torrent, Torrent};
use crate::util::{hash64, panic_site, Ctx, Report, Rng};
use serde_json::{json, Value};
use std::rc::Rc;

pub fn peer_id(k: usize) -> [u8; 20] {
    let mut id = *b"-SD0001-000000000000";
    let s = format!("{:06}", k);
    id[14..20].copy_from_slice(s.as_bytes());
    id
}

pub fn addr(k: usize) -> String {
    format!("10.0.{}.{}:{}", k / 200, 1 + k % 200, 7000 + k)
}

pub struct Scenario {
    pub cfg: SimCfg,
    pub desc: Value,
    pub sig: u64,
}

pub fn gen_honest_seeder(r: &mut Rng, id: [u8; 20], have: Vec<bool>, incoming: bool) -> SeederCfg {
    let mut c = SeederCfg::honest(id, have);
    c.incoming = incoming;
    c.latency_ms = match r.below(4) { 0 => (0, 0), 1 => (1, 5), 2 => (0, 80), _ => (20, 400) };
    c.unchoke_after_ms = match r.below(4) { 0 => Some(0), 1 => Some(r.range(1, 3000)), _ => None };
    c.haves_instead_of_bitfield = r.chance(1, 8);
    c.serve_while_choking = r.chance(1, 6);
    // choke/unchoke cycles; a peer that follows the protocol always unchokes again
    for _ in 0..r.below(4) {
        let at = c.choke_plan.last().map(|p| p.0).unwrap_or(0) + r.range(1, 6);
        c.choke_plan.push((at, ChokeAct::Choke, r.range(1, 5_000)));
    }
    c.idle_close_ms = 20_000 + r.below(30_000);
    c
}

/// Family: few pieces (end-game from the start), two honest peers that both offer the common pieces
/// — so they are regularly asked for the same piece and one of them is cancelled — while one of
/// them reveals, by Have, a piece that only it can give.
pub fn gen_endgame_exclusive(r: &mut Rng, seed: u64) -> Scenario {
    let n = r.range(2, 6) as usize;
    let piece_len = 16384 * r.range(1, 3) as usize + r.range(1, 16384) as usize;
    let total = (n - 1) * piece_len + r.range(1, piece_len as u64) as usize;
    let content = crate::torrent::distinct_content(r, total, piece_len);
    let torrent = Rc::new(Torrent::build(piece_len, "out.bin", vec![("out.bin".into(), total)], true, content, "http://sim.invalid/announce"));
    let q = r.usize(n);
    let mut peers = vec![];
    let mut a = SeederCfg::honest(peer_id(0), (0..n).map(|i| i != q || n == 1).collect());
    a.unchoke_after_ms = Some(0);
    a.latency_ms = (0, 10);
    a.idle_close_ms = 40_000;
    let mut b = SeederCfg::honest(peer_id(1), vec![true; n]);
    b.unchoke_after_ms = Some(0);
    b.latency_ms = (30, 400);
    b.initial_advert = Some((0..n).map(|i| i != q).collect());
    b.timed_haves = vec![(r.range(50, 600), q)];
    b.idle_close_ms = 40_000;
    // half of the time B never goes away and keeps its connection alive with harmless messages:
    // nothing but the client's own bookkeeping can then get the exclusive piece
    if r.chance(1, 2) { b.chatter_ms = Some(r.range(20_000, 110_000)); b.idle_close_ms = 100_000_000; }
    // a third of the time both answer with the same constant delay: in end game they then finish
    // the same piece in the same instant, and the loser reports before it has seen the winner's Have
    let symmetric = r.chance(1, 3);
    if symmetric { let d = *r.pick(&[5u64, 20, 50]); a.latency_ms = (d, d); b.latency_ms = (d, d); b.timed_haves = vec![(r.range(300, 3000), q)]; }
    let pdesc = vec![json!({"addr": addr(0), "essential": true, "pieces": "all but the exclusive one", "latency_ms": [a.latency_ms.0, a.latency_ms.1], "same_constant_latency_for_both": symmetric}), json!({"addr": addr(1), "essential": true, "pieces": "all; the exclusive piece is announced by Have some 50..600 ms after connecting", "exclusive_piece": q, "latency_ms": [30, 400], "stays_connected_for_ever": b.chatter_ms})];
    for (k, c) in [a, b].into_iter().enumerate() {
        let c2 = c.clone();
        peers.push(PeerSpec { addr: addr(k), id: peer_id(k), entry: Entry::Dialled { from_announce: 0 }, make: Box::new(move |nth| if nth > 3 { None } else { Some(seeder(c2.clone())) }), chunk: 0, pipe: 1 << 20 });
    }
    let desc = json!({"seed": seed, "family": "endgame-cancel-then-exclusive-piece", "piece_length": piece_len, "pieces": n, "total": total, "peers": pdesc});
    Scenario { cfg: SimCfg { torrent, peers, tracker: vec![], failpoints: if r.chance(1, 2) { Some(r.next()) } else { None }, max_virtual_ms: 600_000 + 360_000 * 3, stop_on_extract: true, linger_ms: 200, disk_on: disk_never, seed, pre: None, tracker_fn: None, driver: None }, desc, sig: hash64(&("endgame-exclusive", n, piece_len / 16384)) }
}

/// Family: one to three pieces and many honest peers that all have everything: several of them
/// finish the same piece almost simultaneously, right when the download completes.
pub fn gen_many_seeders_few_pieces(r: &mut Rng, seed: u64) -> Scenario {
    let n = r.range(1, 3) as usize;
    let piece_len = match r.below(3) { 0 => r.range(100, 16384) as usize, 1 => 16384 + r.range(1, 16384) as usize, _ => r.range(8, 64) as usize };
    let total = (n - 1) * piece_len + r.range(1, piece_len as u64) as usize;
    let content = crate::torrent::distinct_content(r, total, piece_len);
    let torrent = Rc::new(Torrent::build(piece_len, "out.bin", vec![("out.bin".into(), total)], true, content, "http://sim.invalid/announce"));
    let np = r.range(6, 14) as usize;
    let mut peers = vec![];
    let mut pdesc = vec![];
    for k in 0..np {
        let mut c = SeederCfg::honest(peer_id(k), vec![true; n]);
        c.unchoke_after_ms = match r.below(3) { 0 => Some(0), 1 => Some(r.range(1, 50)), _ => None };
        c.latency_ms = match r.below(3) { 0 => (0, 0), 1 => (0, 5), _ => (1, 30) };
        c.idle_close_ms = 20_000 + r.below(20_000);
        pdesc.push(json!({"addr": addr(k), "essential": true, "pieces": "all", "latency_ms": [c.latency_ms.0, c.latency_ms.1], "unchoke_after_ms": c.unchoke_after_ms}));
        let c2 = c.clone();
        peers.push(PeerSpec { addr: addr(k), id: peer_id(k), entry: Entry::Dialled { from_announce: 0 }, make: Box::new(move |nth| if nth > 3 { None } else { Some(seeder(c2.clone())) }), chunk: 0, pipe: 1 << 20 });
    }
    let desc = json!({"seed": seed, "family": "many-seeders-few-pieces", "piece_length": piece_len, "pieces": n, "total": total, "peers": pdesc});
    Scenario { cfg: SimCfg { torrent, peers, tracker: vec![], failpoints: if r.chance(1, 2) { Some(r.next()) } else { None }, max_virtual_ms: 600_000 + 360_000 * 3, stop_on_extract: true, linger_ms: 200, disk_on: disk_never, seed, pre: None, tracker_fn: None, driver: None }, desc, sig: hash64(&("many-seeders", n, np, piece_len / 16384)) }
}

/// Family: the tracker lists more peers than the client dials at once (11); the only useful peers
/// come first in the list (they are dialled last) and everybody dialled before them is useless:
/// nobody listening, an empty bitfield followed by a disconnect, or silence.
pub fn gen_useless_crowd(r: &mut Rng, seed: u64) -> Scenario {
    let torrent = Rc::new(gen_sim_torrent(r, 6, true));
    let n = torrent.n();
    let useful = r.range(1, 2) as usize;
    let useless = r.range(11, 15) as usize;
    let mut peers = vec![];
    let mut pdesc = vec![];
    for k in 0..useful {
        let mut c = SeederCfg::honest(peer_id(k), vec![true; n]);
        c.unchoke_after_ms = Some(0);
        c.idle_close_ms = 30_000;
        pdesc.push(json!({"addr": addr(k), "essential": true, "pieces": "all"}));
        let c2 = c.clone();
        peers.push(PeerSpec { addr: addr(k), id: peer_id(k), entry: Entry::Dialled { from_announce: 0 }, make: Box::new(move |nth| if nth > 4 { None } else { Some(seeder(c2.clone())) }), chunk: 0, pipe: 1 << 20 });
    }
    for j in 0..useless {
        let k = useful + j;
        let kind = r.below(3);
        let mut c = SeederCfg::honest(peer_id(k), vec![false; n]);
        c.unchoke_after_ms = Some(10_000_000);
        c.idle_close_ms = if kind == 1 { r.range(10, 3_000) } else { 100_000_000 };
        let kind_name = ["nobody listens", "empty bitfield, then disconnects", "empty bitfield, then silent"][kind as usize];
        pdesc.push(json!({"addr": addr(k), "essential": false, "kind": kind_name}));
        let c2 = c.clone();
        peers.push(PeerSpec { addr: addr(k), id: peer_id(k), entry: Entry::Dialled { from_announce: 0 }, make: Box::new(move |nth| if kind == 0 || nth > 1 { None } else { Some(seeder(c2.clone())) }), chunk: 0, pipe: 1 << 20 });
    }
    let desc = json!({"seed": seed, "family": "useless-crowd-dialled-before-the-seeders", "pieces": n, "piece_length": torrent.piece_len, "peers": pdesc});
    let max_virtual_ms = 600_000 + 360_000 * (useless as u64 + 2);
    Scenario { cfg: SimCfg { torrent, peers, tracker: vec![], failpoints: None, max_virtual_ms, stop_on_extract: true, linger_ms: 200, disk_on: disk_never, seed, pre: None, tracker_fn: None, driver: None }, desc, sig: hash64(&("useless-crowd", n, useful, useless)) }
}

/// Family: the holder of some pieces is known to the tracker only from the second announce on,
/// while a useless peer that never goes away stays connected: the client has to re-announce when
/// its candidates are used up although it still has a connection.
pub fn gen_late_listed_holder(r: &mut Rng, seed: u64) -> Scenario {
    let torrent = Rc::new(gen_sim_torrent(r, 8, true));
    let n = torrent.n();
    let split = r.range(0, n as u64 - 1) as usize; // pieces < split at P1 (may be none), the rest only at P2
    let mut peers = vec![];
    let mut pdesc = vec![];
    let mut p1 = SeederCfg::honest(peer_id(0), (0..n).map(|i| i < split).collect());
    p1.unchoke_after_ms = Some(0);
    p1.idle_close_ms = r.range(500, 8_000);
    let mut lingerer = SeederCfg::honest(peer_id(1), (0..n).map(|i| i == 0).collect());
    lingerer.unchoke_after_ms = Some(10_000_000);
    lingerer.chatter_ms = Some(r.range(20_000, 100_000));
    lingerer.idle_close_ms = 100_000_000;
    let mut p2 = SeederCfg::honest(peer_id(2), vec![true; n]);
    p2.unchoke_after_ms = Some(0);
    p2.idle_close_ms = 20_000;
    pdesc.push(json!({"addr": addr(0), "essential": true, "pieces": format!("the first {} of {}", split, n), "leaves_after_idle_ms": p1.idle_close_ms}));
    pdesc.push(json!({"addr": addr(1), "essential": false, "kind": "never unchokes, never leaves (repeats a Have now and then)"}));
    pdesc.push(json!({"addr": addr(2), "essential": true, "pieces": "all", "listed_from_announce": 1}));
    for (k, c, from) in [(0usize, p1, 0u64), (1, lingerer, 0), (2, p2, 1)] {
        let c2 = c.clone();
        peers.push(PeerSpec { addr: addr(k), id: peer_id(k), entry: Entry::Dialled { from_announce: from }, make: Box::new(move |nth| if nth > 4 { None } else { Some(seeder(c2.clone())) }), chunk: 0, pipe: 1 << 20 });
    }
    let desc = json!({"seed": seed, "family": "late-listed-holder-with-lingering-useless-peer", "pieces": n, "piece_length": torrent.piece_len, "peers": pdesc});
    Scenario { cfg: SimCfg { torrent, peers, tracker: vec![], failpoints: None, max_virtual_ms: 600_000 + 360_000 * 4, stop_on_extract: true, linger_ms: 200, disk_on: disk_never, seed, pre: None, tracker_fn: None, driver: None }, desc, sig: hash64(&("late-listed", n, split)) }
}

pub fn gen_scenario(r: &mut Rng, seed: u64) -> Scenario {
    if r.chance(1, 8) {
        return gen_endgame_exclusive(r, seed);
    }
    if r.chance(1, 14) {
        return gen_late_listed_holder(r, seed);
    }
    if r.chance(1, 12) {
        return gen_useless_crowd(r, seed);
    }
    if r.chance(1, 7) {
        return gen_many_seeders_few_pieces(r, seed);
    }
    let small = r.chance(1, 2);
    let maxp = if r.chance(1, 3) { 30 } else { 12 };
    let torrent = Rc::new(gen_sim_torrent(r, maxp, small));
    let n = torrent.n();
    let honest = r.range(1, 6) as usize;
    let extra = match r.below(4) { 0 => 0, 1 => r.range(1, 3) as usize, 2 => r.range(6, 9) as usize, _ => 1 };
    // piece distribution over the honest peers: union = everything
    let mut haves: Vec<Vec<bool>> = vec![vec![false; n]; honest];
    for i in 0..n {
        let owner = r.usize(honest);
        haves[owner][i] = true;
        for h in haves.iter_mut() { if r.chance(1, 3) { h[i] = true; } }
    }
    if r.chance(1, 4) { haves[0] = vec![true; n]; }
    let mut peers = vec![];
    let mut pdesc = vec![];
    let ntrack_fail = r.below(4);
    for k in 0..honest + extra {
        let essential = k < honest;
        let incoming = r.chance(1, 5);
        let have = if essential { haves[k].clone() } else { (0..n).map(|_| r.chance(1, 2)).collect() };
        let mut c = gen_honest_seeder(r, peer_id(k), have.clone(), incoming);
        if !essential {
            c.disc = Some(match r.below(5) { 0 => Disc::AfterBlocks(r.range(1, 6)), 1 => Disc::OnRequest(r.range(1, 4)), 2 => Disc::MidFrame(r.below(4)), 3 => Disc::AtMs(r.range(0, 4000)), _ => Disc::AtMs(r.range(0, 200)) });
        }
        pdesc.push(json!({"addr": addr(k), "essential": essential, "incoming": incoming, "pieces": have.iter().map(|b| if *b { '1' } else { '0' }).collect::<String>(),
            "latency_ms": [c.latency_ms.0, c.latency_ms.1], "unchoke_after_ms": c.unchoke_after_ms, "choke_plan": format!("{:?}", c.choke_plan), "disconnect": format!("{:?}", c.disc), "serve_while_choking": c.serve_while_choking}));
        let chunk = *r.pick(&[0usize, 0, 0, 1, 3, 7, 64, 1000, 16389]);
        let pipe = *r.pick(&[1 << 20, 1 << 20, 1 << 16, 1 << 14, 4096]);
        // re-dials (after a re-announce) get the same behaviour again; essential peers come back
        let c2 = c.clone();
        peers.push(PeerSpec {
            addr: addr(k),
            id: peer_id(k),
            entry: if incoming { Entry::Incoming { at_ms: r.range(0, 3000) + 1000 * ntrack_fail } } else { Entry::Dialled { from_announce: 0 } },
            make: Box::new(move |nth| { if nth > 6 { None } else { Some(seeder(c2.clone())) } }),
            chunk,
            pipe,
        });
    }
    // incoming essential peers must be admitted: the client only admits while < 4 uninterested
    // connections exist; keep essential peers dialled to stay inside the property's premise
    for (k, p) in peers.iter_mut().enumerate() {
        if k < honest { if let Entry::Incoming { .. } = p.entry { p.entry = Entry::Dialled { from_announce: 0 }; pdesc[k]["incoming"] = json!(false); } }
    }
    let tracker: Vec<TrackerStep> = (0..ntrack_fail).map(|_| match r.below(3) { 0 => TrackerStep::Fail("connection refused".into()), 1 => TrackerStep::Body(b"garbage".to_vec()), _ => TrackerStep::Body(b"d14:failure reason4:busye".to_vec()) }).collect();
    let failpoints = if r.chance(1, 2) { Some(r.next()) } else { None };
    let desc = json!({"seed": seed, "piece_length": torrent.piece_len, "pieces": n, "total": torrent.total(), "files": torrent.files.iter().map(|f| json!([f.0, f.1])).collect::<Vec<_>>(), "single": torrent.single,
        "tracker_failures": ntrack_fail, "failpoints": failpoints.is_some(), "peers": pdesc});
    let sig = hash64(&(torrent.piece_len, n, torrent.files.len(), honest, extra));
    let max_virtual_ms = 600_000 + 360_000 * (honest + extra + 1) as u64;
    Scenario {
        cfg: SimCfg { torrent, peers, tracker, failpoints, max_virtual_ms, stop_on_extract: true, linger_ms: 200, disk_on: disk_never, seed, pre: None, tracker_fn: None, driver: None },
        desc,
        sig,
    }
}

/// Interleaving signature: hash of the (peer, command kind) sequence the manager handled.
pub fn interleaving_sig(o: &Outcome) -> u64 {
    let v: Vec<(&str, &str)> = o.mgr().map(|(e, k, _)| (e.addr.as_str(), k)).filter(|(_, k)| *k != "SyncStats" && *k != "Rotation").collect();
    hash64(&v)
}

pub fn judge(t: &Torrent, o: &Outcome) -> Result<(), (String, String)> {
    if o.watchdog {
        return Err(("INCONCLUSIVE".into(), "wall-clock watchdog".into()));
    }
    for p in &o.panics {
        return Err((format!("C02:panic:{}", panic_site(p)), p.clone()));
    }
    if o.session_panicked || !o.session_alive_at_end {
        return Err(("C02:session-dead".into(), "the manager loop no longer answers".into()));
    }
    if o.extractor.is_none() {
        let snap = o.final_snapshot.as_ref();
        let st = snap.map(|s| crate::sim::fmt_status(&s.statuses)).unwrap_or_default();
        let have_all = snap.map(|s| s.statuses.iter().all(|x| *x == rdest::verif::Status::Have)).unwrap_or(false);
        let stale = snap.map(|s| s.statuses.iter().enumerate().any(|(i, x)| matches!(x, rdest::verif::Status::Reserved(_)) && !s.peers.iter().any(|p| p.piece_index == Some(i) && !p.choked))).unwrap_or(false);
        let sig = if have_all { "C02:complete-but-never-extracted" } else if stale { "C02:stalled:stale-reservation" } else { "C02:stalled" };
        return Err((sig.into(), format!("not complete at virtual t={}s: statuses {} peers {:?}", o.end_ms / 1000, st, snap.map(|s| s.peers.iter().map(|p| format!("{} idx={:?} choked={} amI={}", p.addr, p.piece_index, p.choked, p.am_interested)).collect::<Vec<_>>()))));
    }
    if o.extractor.as_deref().map(|s| s.starts_with("ExtractorFail")).unwrap_or(false) {
        return Err(("C02:extractor-failed".into(), o.extractor.clone().unwrap()));
    }
    if !o.final_disk.invalid.is_empty() || o.final_disk.valid.len() != t.n() {
        return Err(("C02:piece-files".into(), format!("piece files at the end: valid {:?} invalid {:?}", o.final_disk.valid, o.final_disk.invalid)));
    }
    let expected = t.expected_files();
    for (p, data) in &expected {
        match o.files.get(p) {
            None => return Err(("C02:output-missing".into(), format!("{:?} missing", p))),
            Some(d) if d != data => {
                let off: usize = 0;
                let _ = off;
                return Err(("C02:output-differs".into(), format!("{:?}: {} bytes written, {} expected, content equal: {}", p, d.len(), data.len(), d == data)));
            }
            _ => (),
        }
    }
    for p in o.files.keys() {
        if !expected.iter().any(|(e, _)| e == p) {
            return Err(("C02:unexpected-output".into(), format!("unexpected file {:?}", p)));
        }
    }
    Ok(())
}

pub fn run(ctx: &Ctx) -> Report {
    let mut rep = Report::new();
    rep.need("completed_identical", 100);
    let mut r = ctx.rng("c02");
    let n = ctx.count(1_500, 40_000);
    for k in 0..n {
        let seed = ctx.scenario_seed(r.next());
        let mut sr = Rng::new(seed);
        let sc = gen_scenario(&mut sr, seed);
        let t = sc.cfg.torrent.clone();
        let desc = sc.desc.clone();
        rep.evaluations += 1;
        let o = run_sim(sc.cfg, &ctx.scratch, 120);
        rep.count("manager_events", o.mgr().count() as u64);
        rep.count("wire_events", o.events.len() as u64);
        rep.distinct(&(sc.sig, interleaving_sig(&o)));
        for (_, kind, _) in o.mgr() { rep.count(&format!("mgr:{}", kind), 1); }
        if o.mgr().any(|(_, k, s)| k == "PieceDone" && s.statuses.iter().filter(|x| **x != rdest::verif::Status::Have).count() < 10 && s.statuses.len() >= 10) { rep.count("scenarios_with_endgame", 1); }
        if o.tracker_calls > 1 { rep.count("scenarios_with_reannounce_or_tracker_failures", 1); }
        match judge(&t, &o) {
            Ok(()) => {
                rep.count("completed_identical", 1);
                rep.max("virtual_seconds_to_complete", o.end_ms / 1000);
                if k % 100 == 0 { rep.sample(json!({"scenario": desc, "manager_events": o.mgr().count(), "virtual_ms": o.end_ms})); }
            }
            Err((sig, what)) if sig == "INCONCLUSIVE" => rep.inconclusive(format!("{} (scenario seed {})", what, seed)),
            Err((sig, what)) => rep.violation(&sig, what, json!({"scenario": desc, "trace_tail": o.trace(60)})),
        }
    }
    rep
}
