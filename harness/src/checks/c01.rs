//! C01 — only hash-verified data is ever stored, advertised or assembled.
//! C11 — the client never advertises a piece it has not verified; deferred Haves are all
//! delivered, in completion order.
//! Disk oracle taken synchronously at ownership-related events + wire oracle + manager log.

use crate::checks::c02::{addr, gen_honest_seeder, interleaving_sig, peer_id};
use crate::checks::c12::{check_invariants, gen_hostile_seeder, witness_trace};
use crate::sim::peers::{scripted, seeder};
use crate::sim::{disk_on_ownership, fmt_ev, run_sim, DiskSnap, Entry, Ev, EvKind, Outcome, PeerSpec, SimCfg};
use crate::torrent::{gen_sim_torrent, Torrent};
use crate::util::{hash64, panic_site, Ctx, Report, Rng};
use crate::wire::{bitfield_bits, bitfield_bytes, Msg};
use rdest::verif::{Snapshot, Status};
use serde_json::{json, Value};
use std::collections::HashMap;
use std::rc::Rc;

pub struct Finding { pub sig: String, pub what: String, pub at_seq: u64 }

fn disk_after(events: &[Ev], k: usize) -> Option<&DiskSnap> {
    match events.get(k + 1).map(|e| &e.kind) { Some(EvKind::Disk { snap }) => Some(snap), _ => None }
}

/// Ownership monitors over one log. `stats` gets counts for the evidence.
pub fn check_ownership(t: &Torrent, o: &Outcome, stats: &mut HashMap<&'static str, u64>) -> Option<Finding> { check_ownership_with(t, o, stats, None) }

/// `leftover`: name of a piece file the harness put there before the start (right name and
/// length, wrong bytes - left behind by an earlier, damaged run). It is not something the client
/// stored; what matters is that the piece is never counted as owned while that is all there is.
pub fn check_ownership_with(t: &Torrent, o: &Outcome, stats: &mut HashMap<&'static str, u64>, leftover: Option<&str>) -> Option<Finding> {
    let mut prev: Option<Rc<Snapshot>> = None;
    for (k, e) in o.events.iter().enumerate() {
        match &e.kind {
            EvKind::Disk { snap } => {
                *stats.entry("disk_snapshots").or_default() += 1;
                if let Some((name, len)) = snap.invalid.iter().find(|x| Some(x.0.as_str()) != leftover) {
                    let known = t.index_of_hash_name(name);
                    return Some(Finding { sig: "C01:stored-piece-not-verified".into(), what: format!("file {} ({} bytes) does not hash to its name / is not a piece of this torrent (index {:?})", name, len, known), at_seq: e.seq });
                }
            }
            EvKind::Mgr { kind, after, text, .. } => {
                // assembling the output files starts only when every piece is verified and stored
                if after.files_extracted && !prev.as_ref().map(|p| p.files_extracted).unwrap_or(false) {
                    *stats.entry("extraction_starts_checked").or_default() += 1;
                    let lacking: Vec<usize> = after.statuses.iter().enumerate().filter(|(_, s)| **s != Status::Have).map(|(i, _)| i).collect();
                    if !lacking.is_empty() {
                        return Some(Finding { sig: "C01:extraction-before-all-pieces-verified".into(), what: format!("the output files are assembled after {} {} while pieces {:?} are not verified and stored yet", kind, e.addr, lacking), at_seq: e.seq });
                    }
                }
                if let Some(p) = &prev {
                    for i in 0..after.statuses.len() {
                        if after.statuses[i] == Status::Have && p.statuses[i] != Status::Have {
                            *stats.entry("pieces_marked_owned").or_default() += 1;
                            match disk_after(&o.events, k) {
                                Some(d) if d.valid.contains(&i) => (),
                                Some(_) => return Some(Finding { sig: "C01:owned-without-verified-file".into(), what: format!("piece {} counted as owned after {} {} but no verified file for it is on disk at that moment", i, kind, e.addr), at_seq: e.seq }),
                                None => (),
                            }
                        }
                    }
                    if *kind == "KillReq" && text.contains("hash mismatch") {
                        *stats.entry("hash_failures").or_default() += 1;
                        // the piece the dead peer was fetching must be downloadable again (or owned with a file)
                        if let Some(pi) = p.peers.iter().find(|x| x.addr == e.addr).and_then(|x| x.piece_index) {
                            let st = &after.statuses[pi];
                            let holder = after.peers.iter().any(|x| x.piece_index == Some(pi) && !x.choked);
                            let ok = match st { Status::Missing => true, Status::Reserved(_) => holder, Status::Have => disk_after(&o.events, k).map(|d| d.valid.contains(&pi)).unwrap_or(true) };
                            if !ok {
                                return Some(Finding { sig: "C01:failed-piece-not-downloadable-again".into(), what: format!("piece {} failed its hash on {} and is {:?} afterwards with nobody fetching it", pi, e.addr, st), at_seq: e.seq });
                            }
                        }
                        if after.peers.iter().any(|x| x.addr == e.addr) {
                            return Some(Finding { sig: "C01:peer-kept-after-hash-failure".into(), what: format!("{} still connected after its piece failed the hash", e.addr), at_seq: e.seq });
                        }
                    }
                }
                prev = Some(after.clone());
            }
            EvKind::Send { msg, .. } => {
                let need: Vec<usize> = match msg {
                    Msg::Have(i) => vec![*i as usize],
                    Msg::Piece(i, _, _) => vec![*i as usize],
                    Msg::Bitfield(b) => bitfield_bits(b, t.n()).iter().enumerate().filter(|x| *x.1).map(|x| x.0).collect(),
                    _ => continue,
                };
                *stats.entry("ownership_claims_on_wire").or_default() += 1;
                if let Some(d) = disk_after(&o.events, k) {
                    for i in need {
                        if i < t.n() && !d.valid.contains(&i) {
                            return Some(Finding { sig: format!("C01:advertised-or-served-unverified:{}", msg.kind()), what: format!("{} for piece {} written to {} while no verified file for it is on disk", msg.kind(), i, e.addr), at_seq: e.seq });
                        }
                    }
                }
            }
            _ => (),
        }
    }
    // final state
    if let Some((name, len)) = o.final_disk.invalid.iter().find(|x| Some(x.0.as_str()) != leftover) {
        return Some(Finding { sig: "C01:stored-piece-not-verified".into(), what: format!("at the end: file {} ({} bytes) is not a verified piece", name, len), at_seq: u64::MAX });
    }
    if o.extractor.as_deref().map(|s| s.starts_with("ExtractorDone")).unwrap_or(false) {
        for (p, data) in t.expected_files() {
            if o.files.get(&p) != Some(&data) {
                return Some(Finding { sig: "C01:assembled-output-differs".into(), what: format!("output file {:?} differs from the original content", p), at_seq: u64::MAX });
            }
        }
        *stats.entry("outputs_compared").or_default() += 1;
    }
    None
}


/// The advertising half of `check_ownership` on its own (C11): a Have / Bitfield bit for a piece
/// that has no verified file on disk at that moment.
pub fn check_claims_on_wire(t: &Torrent, o: &Outcome, stats: &mut HashMap<&'static str, u64>) -> Option<Finding> {
    for (k, e) in o.events.iter().enumerate() {
        if let EvKind::Send { msg, .. } = &e.kind {
            let need: Vec<usize> = match msg {
                Msg::Have(i) => vec![*i as usize],
                Msg::Bitfield(b) => bitfield_bits(b, t.n()).iter().enumerate().filter(|x| *x.1).map(|x| x.0).collect(),
                _ => continue,
            };
            *stats.entry("announcements_checked_against_disk").or_default() += 1;
            if let Some(d) = disk_after(&o.events, k) {
                for i in need {
                    if i < t.n() && !d.valid.contains(&i) {
                        return Some(Finding { sig: format!("C11:announced-without-stored-piece:{}", msg.kind()), what: format!("{} for piece {} written to {} while no verified file for it is on disk", msg.kind(), i, e.addr), at_seq: e.seq });
                    }
                }
            }
        }
    }
    None
}

pub struct Scenario { pub cfg: SimCfg, pub desc: Value }

pub fn gen_scenario(r: &mut Rng, seed: u64) -> Scenario {
    let small = r.chance(1, 2);
    let torrent = Rc::new(gen_sim_torrent(r, 12, small));
    let n = torrent.n();
    let hostile = r.range(1, 3) as usize;
    let mut peers = vec![];
    let mut pdesc = vec![];
    // one honest seeder with everything
    let h = gen_honest_seeder(r, peer_id(0), vec![true; n], false);
    let h2 = h.clone();
    pdesc.push(json!({"addr": addr(0), "persona": "honest", "latency_ms": [h.latency_ms.0, h.latency_ms.1]}));
    peers.push(PeerSpec { addr: addr(0), id: peer_id(0), entry: Entry::Dialled { from_announce: 0 }, make: Box::new(move |nth| if nth > 3 { None } else { Some(seeder(h2.clone())) }), chunk: 0, pipe: 1 << 20 });
    for k in 1..=hostile {
        let incoming = r.chance(1, 4);
        let (mut c, mut persona) = gen_hostile_seeder(r, peer_id(k), n, incoming);
        if r.chance(1, 2) {
            // make hash failures frequent: corrupt mostly the completing block
            c.corrupt = crate::sim::peers::Corrupt { flip: 120, wrong_offset: 20, wrong_index: 20, short: 20, long: 20, dup: 50, unrequested: 50, overlap: 20, prefer_completing: true };
            c.have = vec![true; n];
            persona = "corruptor";
        } else if torrent.piece_len >= 32768 && r.chance(1, 2) {
            c = crate::sim::peers::SeederCfg::honest(peer_id(k), vec![true; n]);
            c.incoming = incoming;
            c.unchoke_after_ms = Some(0);
            c.mislabel = true;
            persona = "mislabeller";
        }
        pdesc.push(json!({"addr": addr(k), "persona": persona, "incoming": incoming, "corrupt": format!("{:?}", c.corrupt), "disconnect": format!("{:?}", c.disc), "choke_plan": format!("{:?}", c.choke_plan)}));
        let c2 = c.clone();
        peers.push(PeerSpec { addr: addr(k), id: peer_id(k), entry: if incoming { Entry::Incoming { at_ms: r.range(0, 2000) } } else { Entry::Dialled { from_announce: 0 } }, make: Box::new(move |nth| if nth > 4 { None } else { Some(seeder(c2.clone())) }), chunk: *r.pick(&[0usize, 0, 2, 100]), pipe: 1 << 20 });
    }
    // a downloader that asks for what the client owns (so that Piece/Have/Bitfield claims are made)
    if r.chance(2, 3) {
        let k = hostile + 1;
        let lc = crate::sim::peers::LeecherCfg { id: peer_id(k), incoming: true, hs: crate::sim::peers::Hs::Normal, have: vec![false; n], max_requests: 30, fuzz: 0, idle_close_ms: 40_000, request_while_choked: 0, interested_toggle: 0, pipeline: 2 };
        pdesc.push(json!({"addr": addr(k), "persona": "leecher", "incoming": true}));
        peers.push(PeerSpec { addr: addr(k), id: peer_id(k), entry: Entry::Incoming { at_ms: r.range(0, 5000) }, make: Box::new(move |nth| if nth > 1 { None } else { Some(crate::sim::peers::leecher(lc.clone())) }), chunk: 0, pipe: 1 << 20 });
    }
    let failpoints = if r.chance(1, 2) { Some(r.next()) } else { None };
    // fault on disk: the file name of one piece is occupied by a non-empty directory, so that
    // storing that piece fails at the very last step
    let obstacle = if r.chance(1, 8) { Some(r.usize(n)) } else { None };
    // or: a file with the right name and length and the wrong bytes is lying there already
    let leftover = if obstacle.is_none() && r.chance(1, 8) { Some(r.usize(n)) } else { None };
    let desc = json!({"seed": seed, "piece_length": torrent.piece_len, "pieces": n, "failpoints": failpoints.is_some(), "piece_file_name_occupied_by_directory": obstacle, "damaged_piece_file_left_from_an_earlier_run": leftover.map(|i| torrent.piece_file_name(i)), "peers": pdesc});
    let pre: Option<Box<dyn FnOnce(&std::path::Path)>> = match (obstacle, leftover) {
        (Some(i), _) => { let name = torrent.piece_file_name(i); Some(Box::new(move |dir: &std::path::Path| { let d = dir.join(&name); let _ = std::fs::create_dir_all(&d); let _ = std::fs::write(d.join("occupied"), b"x"); }) as Box<dyn FnOnce(&std::path::Path)>) }
        (None, Some(i)) => { let name = torrent.piece_file_name(i); let len = torrent.piece_len_of(i); Some(Box::new(move |dir: &std::path::Path| { let _ = std::fs::write(dir.join(&name), vec![0x5Au8; len]); }) as Box<dyn FnOnce(&std::path::Path)>) }
        _ => None,
    };
    Scenario { cfg: SimCfg { torrent, peers, tracker: vec![], failpoints, max_virtual_ms: 60_000, stop_on_extract: true, linger_ms: 3_000, disk_on: disk_on_ownership, seed, pre, tracker_fn: None, driver: None }, desc }
}

pub fn trace_around(o: &Outcome, at_seq: u64) -> Vec<String> {
    let v: Vec<&Ev> = o.events.iter().filter(|e| e.seq <= at_seq.saturating_add(2)).filter(|e| !matches!(&e.kind, EvKind::RecvWait { .. })).filter(|e| !matches!(&e.kind, EvKind::Mgr { kind, .. } if *kind == "SyncStats" || *kind == "Rotation")).collect();
    let start = v.len().saturating_sub(25);
    v[start..].iter().map(|e| fmt_ev(e)).collect()
}

pub fn run(ctx: &Ctx) -> Report {
    let mut rep = Report::new();
    rep.need("hash_failures", 20);
    rep.need("pieces_marked_owned", 1000);
    rep.need("ownership_claims_on_wire", 500);
    let mut r = ctx.rng("c01");
    let n = ctx.count(2_000, 50_000);
    for k in 0..n {
        let seed = ctx.scenario_seed(r.next());
        let mut sr = Rng::new(seed);
        let sc = gen_scenario(&mut sr, seed);
        let t = sc.cfg.torrent.clone();
        let desc = sc.desc.clone();
        rep.evaluations += 1;
        let o = run_sim(sc.cfg, &ctx.scratch, 120);
        if o.watchdog { rep.inconclusive(format!("watchdog (scenario seed {})", seed)); continue; }
        rep.distinct(&interleaving_sig(&o));
        if let Some(p) = o.panics.first() {
            // crashes are not what C01 states (C02/C06/C09/C12 own the no-panic clauses): the run
            // cannot be judged for C01, say so instead of guessing
            rep.inconclusive(format!("a task panicked ({}): {} (scenario seed {})", panic_site(p), p, seed));
            continue;
        }
        let mut stats = HashMap::new();
        let leftover_name = desc["damaged_piece_file_left_from_an_earlier_run"].as_str().map(|x| x.to_string());
        let f = check_ownership_with(&t, &o, &mut stats, leftover_name.as_deref()).or_else(|| check_invariants(&o).filter(|i| i.sig.starts_with("C12:owned-piece-lost")).map(|i| Finding { sig: "C01:owned-piece-lost".into(), what: i.what, at_seq: i.at_seq }));
        for (k2, v) in &stats { rep.count(k2, *v); }
        if o.extractor.is_some() { rep.count("scenarios_completed", 1); }
        match f {
            None => { if k % 200 == 0 { rep.sample(json!({"scenario": desc, "observed": stats.iter().map(|(a, b)| (a.to_string(), *b)).collect::<HashMap<String, u64>>() })); } }
            Some(f) => rep.violation(&f.sig, f.what, json!({"scenario": desc, "trace": trace_around(&o, f.at_seq)})),
        }
    }
    rep
}

// ------------------------------------------------------------------------------------------------
// C11

/// Every announcement the manager broadcasts: one per handled PieceDone (in end-game two peers
/// can finish the same piece, which is announced twice — harmless and not forbidden).
fn completions(o: &Outcome) -> Vec<(u64, usize)> {
    let mut prev: Option<Rc<Snapshot>> = None;
    let mut out = vec![];
    for (e, kind, after) in o.mgr() {
        if kind == "PieceDone" {
            // which piece: the one whose status turned to Have with this event; if none did (a piece
            // finished a second time) the piece the manager had assigned to that peer
            let newly: Vec<usize> = match &prev { Some(p) => (0..after.statuses.len()).filter(|i| p.statuses[*i] != Status::Have && after.statuses[*i] == Status::Have).collect(), None => vec![] };
            if !newly.is_empty() {
                for i in newly { out.push((e.seq, i)); }
            } else if let Some(i) = prev.as_ref().and_then(|p| p.peers.iter().find(|x| x.addr == e.addr)).and_then(|x| x.piece_index) {
                if after.statuses[i] == Status::Have { out.push((e.seq, i)); }
            }
        }
        prev = Some(after.clone());
    }
    out
}

pub fn check_advertising(t: &Torrent, o: &Outcome, stats: &mut HashMap<&'static str, u64>) -> Option<Finding> {
    let comps = completions(o);
    let end_ms = o.end_ms;
    for (a, conn) in o.conns() {
        // presence intervals of this address in the manager's peer table
        let mut intervals: Vec<(u64, u64)> = vec![];
        let mut open: Option<u64> = None;
        for (e, _, after) in o.mgr() {
            let listed = after.peers.iter().any(|p| p.addr == a);
            match (listed, open) {
                (true, None) => open = Some(e.seq),
                (false, Some(s)) => { intervals.push((s, e.seq)); open = None; }
                _ => (),
            }
        }
        if let Some(s) = open { intervals.push((s, u64::MAX)); }
        // the handler of this connection instance was spawned by the manager event that opened the
        // interval containing the client's first write on it
        let first_send = match o.events.iter().find(|e| e.addr == a && e.conn == conn && matches!(e.kind, EvKind::Send { .. })) { Some(e) => e.seq, None => continue };
        let (spawn_seq, gone_seq) = match intervals.iter().rev().find(|iv| iv.0 <= first_send && first_send <= iv.1) { Some(iv) => *iv, None => continue };
        let conn_events: Vec<&Ev> = o.events.iter().filter(|e| e.addr == a && e.conn == conn).collect();
        let closed = gone_seq != u64::MAX || conn_events.iter().any(|e| matches!(e.kind, EvKind::PeerSawClose | EvKind::PeerClosed));
        // Bitfield == owned set at this connection's Init
        let init = o.events.iter().find(|e| e.addr == a && e.seq > spawn_seq && e.seq < gone_seq && matches!(&e.kind, EvKind::Mgr { kind, .. } if *kind == "Init"));
        let sent_bf = conn_events.iter().find_map(|e| match &e.kind { EvKind::Send { msg: Msg::Bitfield(b), .. } => Some((e.seq, b.clone())), _ => None });
        if let (Some(init), Some((bseq, b))) = (init, &sent_bf) {
            if let EvKind::Mgr { after, .. } = &init.kind {
                // verified and stored at that moment = every piece whose completion the manager has
                // handled so far (a piece once stored stays stored; the manager's current status
                // vector is not the reference: it is part of what is being judged)
                let owned: Vec<bool> = (0..after.statuses.len()).map(|i| comps.iter().any(|c| c.1 == i && c.0 < init.seq)).collect();
                *stats.entry("bitfields_checked").or_default() += 1;
                if *b != bitfield_bytes(&owned) {
                    return Some(Finding { sig: "C11:bitfield-differs-from-owned-set".into(), what: format!("bitfield {} sent to {} but the owned set at its handshake is {}", crate::util::hex(b), a, crate::util::hex(&bitfield_bytes(&owned))), at_seq: *bseq });
                }
            }
        }
        // Have frames: in completion order, each after its piece was verified; an announcement may be
        // left out only for a piece the peer itself has advertised (telling a peer what it already
        // has is optional; the property is about early, lost and overtaken announcements)
        let want: Vec<usize> = comps.iter().filter(|c| c.0 > spawn_seq).map(|c| c.1).collect();
        // a piece finished a second time (end game) may or may not be announced again
        let repeat: Vec<bool> = comps.iter().filter(|c| c.0 > spawn_seq).map(|c| comps.iter().any(|d| d.1 == c.1 && d.0 < c.0)).collect();
        let haves: Vec<(u64, usize)> = conn_events.iter().filter_map(|e| match &e.kind { EvKind::Send { msg: Msg::Have(i), .. } => Some((e.seq, *i as usize)), _ => None }).collect();
        let mut peer_has = vec![false; t.n()];
        for e in &conn_events {
            match &e.kind {
                EvKind::PeerSent { msg: Some(Msg::Bitfield(b)), .. } => for (i, x) in bitfield_bits(b, t.n()).iter().enumerate() { if *x { peer_has[i] = true; } },
                EvKind::PeerSent { msg: Some(Msg::Have(i)), .. } => if (*i as usize) < t.n() { peer_has[*i as usize] = true; },
                _ => (),
            }
        }
        let mut p = 0usize;
        for (k, (hseq, i)) in haves.iter().enumerate() {
            *stats.entry("have_frames_checked").or_default() += 1;
            let mut q = p;
            while q < want.len() && want[q] != *i && (peer_has[want[q]] || repeat[q]) { q += 1; }
            if q >= want.len() || want[q] != *i {
                let sig = if !comps.iter().any(|c| c.1 == *i && c.0 < *hseq) { "C11:have-before-verified" } else { "C11:have-out-of-order-or-duplicated" };
                return Some(Finding { sig: sig.into(), what: format!("Have({}) is frame #{} of Have announcements to {}, completion order since it connected is {:?} (next expected: #{})", i, k, a, want, p), at_seq: *hseq });
            }
            p = q + 1;
        }
        let undelivered: Vec<usize> = (p.min(want.len())..want.len()).filter(|q| !peer_has[want[*q]] && !repeat[*q]).map(|q| want[q]).collect();
        // completeness at the end: peer's last choke-state message to us is Unchoke (sent > 1 s before the end)
        if !closed && init.is_some() {
            let last_state = conn_events.iter().rev().find_map(|e| match &e.kind { EvKind::PeerSent { msg: Some(Msg::Unchoke), .. } => Some((true, e.ms)), EvKind::PeerSent { msg: Some(Msg::Choke), .. } => Some((false, e.ms)), _ => None });
            let last_comp_ms = comps.last().map(|c| o.events.iter().find(|e| e.seq == c.0).map(|e| e.ms).unwrap_or(0)).unwrap_or(0);
            if let Some((true, ms)) = last_state {
                if ms + 1_000 < end_ms && last_comp_ms + 1_000 < end_ms {
                    *stats.entry("unchoked_connections_checked_for_completeness").or_default() += 1;
                    if !undelivered.is_empty() {
                        return Some(Finding { sig: "C11:deferred-have-not-delivered".into(), what: format!("{} unchoked us at t={}ms; {} pieces were completed since it connected ({:?}) but only {} Have frames were sent by the end (t={}ms); never announced: {:?}", a, ms, want.len(), want, haves.len(), end_ms, undelivered), at_seq: u64::MAX });
                    }
                    if haves.len() > 0 && conn_events.iter().any(|e| matches!(&e.kind, EvKind::PeerSent { msg: Some(Msg::Choke), .. })) { *stats.entry("connections_with_deferred_haves").or_default() += 1; }
                }
            }
        }
    }
    let _ = t;
    None
}

pub fn gen_scenario_c11(r: &mut Rng, seed: u64) -> Scenario {
    let maxp = if r.chance(1, 2) { 28 } else { 10 };
    let small = r.chance(2, 3);
    let torrent = Rc::new(gen_sim_torrent(r, maxp, small));
    let n = torrent.n();
    let mut peers = vec![];
    let mut pdesc = vec![];
    let nseed = r.range(1, 2) as usize;
    for k in 0..nseed {
        let mut h = gen_honest_seeder(r, peer_id(k), vec![true; n], false);
        h.latency_ms = (r.range(20, 200), r.range(200, 900)); // completions spread over time
        let h2 = h.clone();
        pdesc.push(json!({"addr": addr(k), "persona": "seeder", "latency_ms": [h.latency_ms.0, h.latency_ms.1]}));
        peers.push(PeerSpec { addr: addr(k), id: peer_id(k), entry: Entry::Dialled { from_announce: 0 }, make: Box::new(move |nth| if nth > 2 { None } else { Some(seeder(h2.clone())) }), chunk: 0, pipe: 1 << 20 });
    }
    let ih = torrent.info_hash();
    for j in 0..r.range(1, 3) as usize {
        let k = nseed + j;
        let incoming = r.chance(1, 2);
        let at = r.range(0, 8_000);
        let mut script: Vec<(u64, Vec<u8>)> = vec![];
        let mut first = Msg::handshake(&ih, &peer_id(k)).encode();
        first.extend_from_slice(&Msg::Bitfield(bitfield_bytes(&vec![false; n])).encode());
        // dialled observers may answer the client's handshake late: announcements made in between
        // have to be held back and delivered after the unchoke like any other
        let hs_delay = if !incoming && r.chance(1, 2) { r.range(200, 9_000) } else { 0 };
        script.push((hs_delay, first));
        // choke/unchoke us at random; many stay choking for a long time and unchoke late
        let mut state_desc = vec![];
        let mut unchoked = false;
        for _ in 0..r.range(0, 5) {
            let d = match r.below(3) { 0 => r.range(0, 300), 1 => r.range(300, 3000), _ => r.range(3000, 12_000) };
            unchoked = !unchoked;
            script.push((d, if unchoked { Msg::Unchoke } else { Msg::Choke }.encode()));
            state_desc.push((d, unchoked));
        }
        pdesc.push(json!({"addr": addr(k), "persona": "observer", "incoming": incoming, "connects_at_ms": at, "handshake_delay_ms": hs_delay, "choke_script(delay_ms,unchoked)": format!("{:?}", state_desc)}));
        let sc = script.clone();
        peers.push(PeerSpec { addr: addr(k), id: peer_id(k), entry: if incoming { Entry::Incoming { at_ms: at } } else { Entry::Dialled { from_announce: 0 } }, make: Box::new(move |nth| if nth > 1 { None } else { Some(scripted(sc.clone(), 10_000_000, false)) }), chunk: *r.pick(&[0usize, 0, 3]), pipe: 1 << 20 });
    }
    let failpoints = if r.chance(1, 2) { Some(r.next()) } else { None };
    // fault on disk (as in C01): one piece cannot be stored because its file name is occupied by
    // a non-empty directory; it must then never be announced
    let obstacle = if r.chance(1, 8) { Some(r.usize(n)) } else { None };
    let desc = json!({"seed": seed, "piece_length": torrent.piece_len, "pieces": n, "failpoints": failpoints.is_some(), "piece_file_name_occupied_by_directory": obstacle, "peers": pdesc});
    let pre: Option<Box<dyn FnOnce(&std::path::Path)>> = obstacle.map(|i| { let name = torrent.piece_file_name(i); Box::new(move |dir: &std::path::Path| { let d = dir.join(&name); let _ = std::fs::create_dir_all(&d); let _ = std::fs::write(d.join("occupied"), b"x"); }) as Box<dyn FnOnce(&std::path::Path)> });
    // run for a fixed virtual time after which everything is quiescent
    Scenario { cfg: SimCfg { torrent, peers, tracker: vec![], failpoints, max_virtual_ms: 110_000, stop_on_extract: true, linger_ms: 25_000, disk_on: disk_on_ownership, seed, pre, tracker_fn: None, driver: None }, desc }
}


/// Interested downloader that, once unchoked, asks for more data than its socket buffers hold and
/// does not read for `pause_ms`; afterwards it reads everything, unchokes us and stays.
pub fn pausing_reader(id: [u8; 20], incoming: bool, pause_ms: u64, nreq: usize) -> crate::sim::Behaviour {
    Box::new(move |mut io: crate::sim::PeerIo| Box::pin(async move {
        let t = io.torrent.clone();
        if incoming { if !io.send(&Msg::handshake(&t.info_hash(), &id)).await { return; } }
        match io.recv_within(400_000).await { Ok(Some(Msg::Handshake { .. })) => (), _ => { io.close(); return; } }
        if !incoming { if !io.send(&Msg::handshake(&t.info_hash(), &id)).await { return; } }
        if !io.send(&Msg::Bitfield(bitfield_bytes(&vec![false; t.n()]))).await { return; }
        if !io.send(&Msg::Interested).await { return; }
        let mut owned: Vec<usize> = vec![];
        let mut unchoked = false;
        let deadline = io.log.now_ms() + 60_000;
        while io.log.now_ms() < deadline && !(unchoked && owned.len() >= 2) {
            match io.recv_within(deadline - io.log.now_ms()).await {
                Ok(Some(Msg::Unchoke)) => unchoked = true,
                Ok(Some(Msg::Choke)) => unchoked = false,
                Ok(Some(Msg::Bitfield(b))) => owned = bitfield_bits(&b, t.n()).iter().enumerate().filter(|x| *x.1).map(|x| x.0).collect(),
                Ok(Some(Msg::Have(i))) => owned.push(i as usize),
                Ok(Some(_)) => (),
                Ok(None) => return,
                Err(()) => break,
            }
        }
        if unchoked && !owned.is_empty() {
            let mut k = 0;
            'outer: loop {
                for i in &owned {
                    for (b, l) in crate::wire::tiling(t.piece_len_of(*i)) {
                        if k >= nreq { break 'outer; }
                        if !io.send(&Msg::Request(*i as u32, b, l)).await { return; }
                        k += 1;
                    }
                }
            }
            io.log.note(&io.addr, format!("pausing reader: {} requests sent, not reading for {} ms", k, pause_ms));
            tokio::time::sleep(std::time::Duration::from_millis(pause_ms)).await;
            io.log.note(&io.addr, "pausing reader: reading again");
        }
        if !io.send(&Msg::Unchoke).await { return; }
        loop { match io.recv_within(10_000_000).await { Ok(Some(_)) => (), _ => return } }
    }))
}

/// Family: many pieces complete on other connections while one connection's task cannot get its
/// writes through for a while; every announcement still has to reach that peer in the end.
pub fn gen_scenario_c11_burst(r: &mut Rng, seed: u64) -> Scenario {
    let piece_len = *r.pick(&[64usize, 100, 257]);
    let n = r.range(40, 90) as usize;
    let total = (n - 1) * piece_len + r.range(1, piece_len as u64) as usize;
    let content = crate::torrent::distinct_content(r, total, piece_len);
    let torrent = Rc::new(Torrent::build(piece_len, "out.bin", vec![("out.bin".into(), total)], true, content, "http://sim.invalid/announce"));
    let early = r.range(3, 6) as usize;
    let mut s1 = crate::sim::peers::SeederCfg::honest(peer_id(0), (0..n).map(|i| i < early).collect());
    s1.unchoke_after_ms = Some(0);
    s1.idle_close_ms = 10_000_000;
    let mut s2 = crate::sim::peers::SeederCfg::honest(peer_id(1), vec![true; n]);
    let burst_at = r.range(6_000, 12_000);
    s2.unchoke_after_ms = Some(burst_at);
    s2.idle_close_ms = 10_000_000;
    let (a, b) = (s1.clone(), s2.clone());
    let mut peers = vec![
        PeerSpec { addr: addr(0), id: peer_id(0), entry: Entry::Dialled { from_announce: 0 }, make: Box::new(move |nth| if nth > 1 { None } else { Some(seeder(a.clone())) }), chunk: 0, pipe: 1 << 20 },
        PeerSpec { addr: addr(1), id: peer_id(1), entry: Entry::Dialled { from_announce: 0 }, make: Box::new(move |nth| if nth > 1 { None } else { Some(seeder(b.clone())) }), chunk: 0, pipe: 1 << 20 },
    ];
    let incoming = r.chance(1, 2);
    let pause = r.range(15_000, 100_000);
    let nreq = r.range(6, 20) as usize;
    let pipe = *r.pick(&[64usize, 256, 600]);
    peers.push(PeerSpec { addr: addr(2), id: peer_id(2), entry: if incoming { Entry::Incoming { at_ms: r.range(500, 2_000) } } else { Entry::Dialled { from_announce: 0 } }, make: Box::new(move |nth| if nth > 1 { None } else { Some(pausing_reader(peer_id(2), incoming, pause, nreq)) }), chunk: 0, pipe });
    let desc = json!({"seed": seed, "family": "burst-of-completions-while-one-connection-cannot-write", "piece_length": piece_len, "pieces": n, "peers": [
        {"addr": addr(0), "persona": "seeder", "pieces": format!("the first {}", early)}, {"addr": addr(1), "persona": "seeder", "pieces": "all", "unchokes_at_ms": burst_at},
        {"addr": addr(2), "persona": "pausing-reader", "incoming": incoming, "requests": nreq, "pause_ms": pause, "pipe_bytes": pipe}]});
    Scenario { cfg: SimCfg { torrent, peers, tracker: vec![], failpoints: None, max_virtual_ms: 200_000, stop_on_extract: true, linger_ms: 150_000, disk_on: disk_on_ownership, seed, pre: None, tracker_fn: None, driver: None }, desc }
}

pub fn run_c11(ctx: &Ctx) -> Report {
    let mut rep = Report::new();
    rep.need("bitfields_checked", 500);
    rep.need("have_frames_checked", 2000);
    rep.need("unchoked_connections_checked_for_completeness", 100);
    let mut r = ctx.rng("c11");
    let n = ctx.count(2_000, 50_000);
    for k in 0..n {
        let seed = ctx.scenario_seed(r.next());
        let mut sr = Rng::new(seed);
        let sc = if sr.chance(1, 10) { gen_scenario_c11_burst(&mut sr, seed) } else { gen_scenario_c11(&mut sr, seed) };
        let t = sc.cfg.torrent.clone();
        let desc = sc.desc.clone();
        rep.evaluations += 1;
        let o = run_sim(sc.cfg, &ctx.scratch, 120);
        if o.watchdog { rep.inconclusive(format!("watchdog (scenario seed {})", seed)); continue; }
        rep.distinct(&(interleaving_sig(&o), hash64(&desc.to_string())));
        if let Some(p) = o.panics.first() {
            rep.inconclusive(format!("a task panicked ({}): {} (scenario seed {})", panic_site(p), p, seed));
            continue;
        }
        let mut stats = HashMap::new();
        let f = check_advertising(&t, &o, &mut stats).or_else(|| check_claims_on_wire(&t, &o, &mut stats));
        for (k2, v) in &stats { rep.count(k2, *v); }
        match f {
            None => { if k % 200 == 0 { rep.sample(json!({"scenario": desc, "observed": stats.iter().map(|(a, b)| (a.to_string(), *b)).collect::<HashMap<String, u64>>() })); } }
            Some(f) => rep.violation(&f.sig, f.what, json!({"scenario": desc, "trace": trace_around(&o, f.at_seq)})),
        }
    }
    rep
}
