//! C15 — bencode encode/decode are mutually inverse and canonical.
//! Oracle: differential against the harness' independent reference encoder/decoder.

use crate::benc::{decode_all, Gen, BV};
use crate::util::{catch, panic_site, show, Ctx, Report};
use rdest::verif::BEncoder;
use rdest::{BDecoder, BValue};
use serde_json::json;

pub fn encode_impl(v: &BValue) -> Vec<u8> {
    let mut e = BEncoder::new();
    match v {
        BValue::Int(i) => e.add_int(*i),
        BValue::ByteStr(s) => e.add_byte_str(s.as_slice()),
        BValue::List(l) => e.add_list(l),
        BValue::Dict(d) => e.add_dict(d),
    };
    e.encode().clone()
}

fn nodes(v: &BV) -> usize {
    match v {
        BV::List(l) => 1 + l.iter().map(nodes).sum::<usize>(),
        BV::Dict(d) => 1 + d.iter().map(|(_, v)| 1 + nodes(v)).sum::<usize>(),
        _ => 1,
    }
}

pub fn run(ctx: &Ctx) -> Report {
    let mut rep = Report::new();
    let mut r = ctx.rng("c15");
    let n = ctx.count(400_000, 4_000_000);
    let g = Gen { max_depth: 6, max_items: 5, max_str: 40 };
    rep.need("roundtrips_checked", 1000);
    rep.need("canonical_docs_checked", 1000);
    for k in 0..n {
        let v = g.value(&mut r, 0);
        let bv = v.to_bvalue();
        let canon = v.to_bytes_canonical();
        rep.evaluations += 1;
        if v.depth() >= 1 && nodes(&v) >= 3 {
            rep.distinct(&canon);
        }
        match v {
            BV::Int(_) => rep.count("top:int", 1),
            BV::Str(_) => rep.count("top:str", 1),
            BV::List(_) => rep.count("top:list", 1),
            BV::Dict(_) => rep.count("top:dict", 1),
        }
        rep.max("depth", v.depth() as u64);
        // (1) encoder output == reference canonical encoding
        let enc = match catch(|| encode_impl(&bv)) {
            Ok(e) => e,
            Err(p) => {
                rep.violation(&format!("C15:panic-encode:{}", panic_site(&p)), p, json!({"value_canonical": show(&canon)}));
                continue;
            }
        };
        if enc != canon {
            rep.violation(
                "C15:encoder-not-canonical",
                "encoder output differs from the reference canonical encoding",
                json!({"expected": show(&canon), "got": show(&enc), "seed": ctx.seed, "shard": ctx.shard, "case": k}),
            );
            continue;
        }
        // (2) decode(encode(v)) == [v]
        match catch(|| BDecoder::from_array(&enc)) {
            Ok(Ok(vals)) => {
                if vals != vec![bv.clone()] {
                    rep.violation(
                        "C15:decode-encode-not-identity",
                        "decode(encode(v)) != [v]",
                        json!({"doc": show(&enc), "got": format!("{:?}", vals).chars().take(400).collect::<String>()}),
                    );
                    continue;
                }
            }
            Ok(Err(e)) => {
                rep.violation(
                    "C15:decode-rejects-own-encoding",
                    format!("decode(encode(v)) failed: {}", e),
                    json!({"doc": show(&enc)}),
                );
                continue;
            }
            Err(p) => {
                rep.violation(&format!("C15:panic-decode:{}", panic_site(&p)), p, json!({"doc": show(&enc)}));
                continue;
            }
        }
        rep.count("roundtrips_checked", 1);
        // (3) canonical documents (1..3 concatenated canonical values): encode(decode(d)) == d
        let mut doc = canon.clone();
        let extra = r.below(3);
        for _ in 0..extra {
            doc.extend_from_slice(&g.value(&mut r, 3).to_bytes_canonical());
        }
        debug_assert!(decode_all(&doc).is_ok());
        match catch(|| BDecoder::from_array(&doc)) {
            Ok(Ok(vals)) => {
                let mut re = vec![];
                for x in &vals {
                    re.extend_from_slice(&encode_impl(x));
                }
                if re != doc {
                    rep.violation(
                        "C15:reencode-differs",
                        "encode(decode(d)) != d for a canonical document",
                        json!({"doc": show(&doc), "got": show(&re)}),
                    );
                    continue;
                }
                rep.count("canonical_docs_checked", 1);
            }
            Ok(Err(e)) => rep.violation(
                "C15:decode-rejects-canonical",
                format!("canonical document rejected: {}", e),
                json!({"doc": show(&doc)}),
            ),
            Err(p) => rep.violation(&format!("C15:panic-decode:{}", panic_site(&p)), p, json!({"doc": show(&doc)})),
        }
        if k < 3 {
            rep.sample(json!({"canonical_document": show(&doc), "values": 1 + extra}));
        }
    }
    rep
}
