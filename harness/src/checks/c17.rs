//! C17 — the metainfo model is a faithful, safe reading of the .torrent.
//! (a) totality on arbitrary/mutated input; (b) accessors equal the generator's ground truth on
//! well-formed documents; (c) every accessor is safe on every accepted document; (d) the torrent
//! the client creates for a file parses back to that file's name/length/chunk hashes.

use crate::benc::{Gen, BV};
use crate::util::{catch, hash64, panic_site, sha1, show, Ctx, Report, Rng};
use rdest::Metainfo;
use serde_json::json;
use std::path::PathBuf;

#[derive(Clone, Debug)]
pub struct Truth {
    pub announce: String,
    pub name: String,
    pub piece_length: i64,
    pub hashes: Vec<[u8; 20]>,
    /// (path, length)
    pub files: Vec<(String, i64)>,
    pub single: bool,
}

pub fn build_doc(t: &Truth, r: &mut Rng, extras: bool) -> Vec<u8> {
    let g = Gen { max_depth: 3, max_items: 3, max_str: 8 };
    let mut pieces = vec![];
    for h in &t.hashes {
        pieces.extend_from_slice(h);
    }
    let mut info: Vec<(Vec<u8>, BV)> = vec![
        (b"name".to_vec(), BV::s(&t.name)),
        (b"piece length".to_vec(), BV::Int(t.piece_length)),
        (b"pieces".to_vec(), BV::Str(pieces)),
    ];
    if t.single {
        info.push((b"length".to_vec(), BV::Int(t.files[0].1)));
    } else {
        info.push((
            b"files".to_vec(),
            BV::List(
                t.files
                    .iter()
                    .map(|(p, l)| {
                        let mut e = vec![(b"length".to_vec(), BV::Int(*l)), (b"path".to_vec(), BV::s(p))];
                        if extras && r.chance(1, 4) {
                            e.push((b"md5sum".to_vec(), BV::s("0123456789abcdef0123456789abcdef")));
                        }
                        BV::Dict(e)
                    })
                    .collect(),
            ),
        ));
    }
    let mut top: Vec<(Vec<u8>, BV)> = vec![(b"announce".to_vec(), BV::s(&t.announce))];
    if extras {
        for _ in 0..r.below(3) {
            let k = g.string(r);
            if [&b"name"[..], b"piece length", b"pieces", b"length", b"files"].contains(&k.as_slice()) || info.iter().any(|e| e.0 == k) {
                continue;
            }
            info.push((k, g.value(r, 1)));
        }
        for _ in 0..r.below(3) {
            let k = g.string(r);
            if k == b"info" || k == b"announce" || top.iter().any(|e| e.0 == k) {
                continue;
            }
            // no nested dictionaries here: that is C05's (recorded) territory, and a wrong hash
            // does not concern the fields compared by this check anyway
            top.push((k, if r.chance(1, 2) { BV::Int(g.int(r)) } else { BV::Str(g.string(r)) }));
        }
        if r.chance(1, 2) {
            r.shuffle(&mut info);
        }
    }
    top.push((b"info".to_vec(), BV::Dict(info)));
    if extras && r.chance(1, 2) {
        r.shuffle(&mut top);
    }
    BV::Dict(top).to_bytes_as_is()
}

pub fn gen_truth(r: &mut Rng) -> Truth {
    let single = r.chance(1, 2);
    let piece_length = match r.below(8) {
        0 => 0,
        1 => 1,
        2 => i64::MAX,
        3 => 16384,
        4 => 262144,
        5 => (r.next() >> r.below(63)) as i64,
        _ => r.range(1, 100_000) as i64,
    };
    let len = |r: &mut Rng| -> i64 {
        match r.below(8) {
            0 => 0,
            1 => i64::MAX,
            2 => (r.next() >> (1 + r.below(62))) as i64,
            3 => 1,
            _ => r.range(0, 10_000_000) as i64,
        }
    };
    let files: Vec<(String, i64)> = if single {
        vec![("NAME".to_string(), len(r))]
    } else {
        (0..r.range(1, 5)).map(|i| (match r.below(7) { 6 if i > 0 => String::new(), 0 => format!("d{}/a\\b{}.bin", i % 2, i), 1 => format!("w\\x/f{}", i), 2 => format!("d{}/f{};%41 \t.bin", i % 2, i), _ => format!("d{}/f{} ü.bin", i % 2, i) }, len(r))).collect()
    };
    let n = r.range(0, 6) as usize;
    Truth {
        announce: r.pick(&["http://t.invalid/announce", "URL", "udp://x:1/a?b=c", ""]).to_string(),
        name: if single { "NAME".to_string() } else { r.pick(&["dir", "d i r", "ünï"]).to_string() },
        piece_length,
        hashes: (0..n).map(|_| { let mut h = [0u8; 20]; h.copy_from_slice(&r.bytes(20)); h }).collect(),
        files,
        single,
    }
}

/// Call every accessor for every valid index; Err(site) on panic.
pub fn exercise(m: &Metainfo) -> Result<(), (String, String)> {
    let call = |name: &str, f: &mut dyn FnMut()| -> Result<(), (String, String)> {
        catch(|| f()).map_err(|p| (format!("C17:panic-accessor:{}:{}", name, panic_site(&p)), p))
    };
    call("tracker_url", &mut || { let _ = m.tracker_url().len(); })?;
    call("info_hash", &mut || { let _ = m.info_hash()[0]; })?;
    call("pieces_num", &mut || { let _ = m.pieces_num(); })?;
    call("total_length", &mut || { let _ = m.total_length(); })?;
    call("file_piece_ranges", &mut || { let _ = m.file_piece_ranges().len(); })?;
    let n = m.pieces_num();
    // all indices when small, else the edges
    let idx: Vec<usize> = if n <= 64 { (0..n).collect() } else { vec![0, 1, n / 2, n - 2, n - 1] };
    for i in idx {
        call("piece", &mut || { let _ = m.piece(i)[0]; })?;
        call("piece_length", &mut || { let _ = m.piece_length(i); })?;
    }
    Ok(())
}

fn compare(m: &Metainfo, t: &Truth) -> Result<(), String> {
    if m.tracker_url() != &t.announce {
        return Err(format!("tracker_url {:?} != {:?}", m.tracker_url(), t.announce));
    }
    if m.pieces_num() != t.hashes.len() {
        return Err(format!("pieces_num {} != {}", m.pieces_num(), t.hashes.len()));
    }
    for (i, h) in t.hashes.iter().enumerate() {
        if m.piece(i) != h {
            return Err(format!("piece({}) differs", i));
        }
    }
    let total: u128 = t.files.iter().map(|f| f.1 as u128).sum();
    if total <= u64::MAX as u128 && m.total_length() as u128 != total {
        return Err(format!("total_length {} != {}", m.total_length(), total));
    }
    let ranges = m.file_piece_ranges();
    if ranges.len() != t.files.len() {
        return Err(format!("file list has {} entries, document lists {}", ranges.len(), t.files.len()));
    }
    let dir = if !t.single { PathBuf::from(&t.name) } else { PathBuf::new() };
    let mut off: u128 = 0;
    for (k, (p, l)) in t.files.iter().enumerate() {
        let want = if t.single { PathBuf::from(&t.name) } else { dir.join(p) };
        if ranges[k].0 != want {
            return Err(format!("file {} path {:?} != {:?} (name/path not as in the document)", k, ranges[k].0, want));
        }
        let pl = t.piece_length as u128;
        let (s, e) = (off, off + *l as u128);
        if pl > 0 && e <= usize::MAX as u128 {
            if (ranges[k].1.file_index as u128, ranges[k].1.byte_index as u128) != (s / pl, s % pl)
                || (ranges[k].2.file_index as u128, ranges[k].2.byte_index as u128) != (e / pl, e % pl)
            {
                return Err(format!("file {} piece range differs from offsets {}..{}", k, s, e));
            }
        }
        off = e;
    }
    // piece lengths partition the content when the piece count matches the total length
    let pl = t.piece_length as u128;
    if pl > 0 && total > 0 && total <= (1u128 << 62) && (total + pl - 1) / pl == t.hashes.len() as u128 {
        let n = t.hashes.len();
        let mut sum: u128 = 0;
        for i in 0..n.min(64) {
            let got = m.piece_length(i) as u128;
            let want = if i + 1 < n { pl } else { total - (n as u128 - 1) * pl };
            if got != want {
                return Err(format!("piece_length({}) = {} != {}", i, got, want));
            }
            sum += got;
        }
        if n <= 64 && sum != total {
            return Err(format!("piece lengths sum to {} != total {}", sum, total));
        }
    }
    Ok(())
}

pub fn run(ctx: &Ctx) -> Report {
    let mut rep = Report::new();
    rep.need("faithful_checked", 1000);
    rep.need("totality_inputs", 5000);
    rep.need("create_roundtrips", 4);

    // (b)+(c) well-formed documents with ground truth
    let mut r = ctx.rng("c17-faithful");
    let n = if ctx.want("docs") { ctx.count(600_000, 3_000_000) } else { 0 };
    for k in 0..n {
        let t = gen_truth(&mut r);
        let mut doc = build_doc(&t, &mut r, true);
        // data after the top-level dictionary: scalars, a list, or a second complete torrent
        // (two .torrent files concatenated); the model is the first dictionary's
        // (only behind a dictionary that is acceptable by itself: which dictionary counts when
        // the first one is refused is not something the property settles)
        let alone_ok = matches!(catch(|| Metainfo::from_bencode(&doc)), Ok(Ok(_)));
        match r.below(12) {
            0 => doc.extend_from_slice(b"i42e"),
            1 => doc.extend_from_slice(b"4:spamli1ee"),
            2 | 3 if alone_ok => { let t2 = gen_truth(&mut r); let d2 = build_doc(&t2, &mut r, false); doc.extend_from_slice(&d2); rep.count("documents_followed_by_a_second_torrent", 1); }
            _ => (),
        }
        rep.evaluations += 1;
        let parsed = match catch(|| Metainfo::from_bencode(&doc)) {
            Err(p) => {
                rep.violation(&format!("C17:panic-parse:{}", panic_site(&p)), p, json!({"document": show(&doc)}));
                continue;
            }
            Ok(x) => x,
        };
        match parsed {
            Err(_) => {
                // Refusing a document is always safe. Count by cause so the evidence shows what was refused.
                rep.count("refused", 1);
                if t.piece_length == 0 { rep.count("refused_piece_length_zero", 1); }
            }
            Ok(m) => {
                rep.distinct(&hash64(&(t.piece_length, t.hashes.len(), &t.files, t.single)));
                if let Err((sig, p)) = exercise(&m) {
                    rep.violation(&sig, p, json!({"document": show(&doc), "piece_length": t.piece_length, "file_lengths": t.files.iter().map(|f| f.1).collect::<Vec<_>>(), "pieces": t.hashes.len()}));
                    continue;
                }
                match catch(|| compare(&m, &t)) {
                    Ok(Ok(())) => {
                        rep.count("faithful_checked", 1);
                        if k % 200 == 0 {
                            rep.sample(json!({"document": show(&doc), "piece_length": t.piece_length, "files": t.files.len(), "pieces": t.hashes.len()}));
                        }
                    }
                    Ok(Err(e)) => rep.violation("C17:unfaithful-reading", e, json!({"document": show(&doc)})),
                    Err(p) => rep.violation(&format!("C17:panic-accessor:compare:{}", panic_site(&p)), p, json!({"document": show(&doc)})),
                }
            }
        }
    }

    // (a) totality: mutated torrents, random delimiter soup, then (c) on whatever is accepted
    let mut r = ctx.rng("c17-total");
    let n = if ctx.want("totality") { ctx.count(800_000, 4_000_000) } else { 0 };
    for _ in 0..n {
        let mut doc = if r.chance(3, 4) {
            let mut t = gen_truth(&mut r);
            if t.piece_length == 0 { t.piece_length = 7; }
            build_doc(&t, &mut r, true)
        } else {
            let l = r.usize(40);
            (0..l).map(|_| *r.pick(b"dlie0123456789:-ainfolength")).collect()
        };
        for _ in 0..r.below(4) {
            if doc.is_empty() { break; }
            let p = r.usize(doc.len());
            match r.below(5) {
                0 => doc[p] = r.below(256) as u8,
                1 => { doc.remove(p); }
                2 => doc.insert(p, *r.pick(b"dlie0123456789:-")),
                3 => doc.truncate(p),
                _ => doc[p] = *r.pick(b"dlie019:-"),
            }
        }
        rep.evaluations += 1;
        rep.count("totality_inputs", 1);
        match catch(|| Metainfo::from_bencode(&doc)) {
            Err(p) => rep.violation(&format!("C17:panic-parse:{}", panic_site(&p)), p, json!({"document": show(&doc), "document_hex": crate::util::hex(&doc)})),
            Ok(Err(_)) => rep.count("totality_rejected", 1),
            Ok(Ok(m)) => {
                rep.count("totality_accepted", 1);
                rep.distinct(&doc);
                if let Err((sig, p)) = exercise(&m) {
                    rep.violation(&sig, p, json!({"document": show(&doc), "document_hex": crate::util::hex(&doc)}));
                }
            }
        }
    }

    // (d) create_file -> from_file round trip (cwd-relative: done in this worker's scratch dir)
    let mut r = ctx.rng("c17-create");
    let sizes_all: Vec<usize> = vec![0, 1, 262143, 262144, 262145, 524288, 524289, 1_000_000];
    let k = if ctx.want("create") { ctx.count(16, 160) as usize } else { 0 };
    std::env::set_current_dir(&ctx.scratch).unwrap();
    for i in 0..k {
        let size = if i < sizes_all.len() && ctx.shard == 0 { sizes_all[i] } else {
            match r.below(4) { 0 => r.usize(3 * 262144 + 2), 1 => 262144 * r.range(1, 4) as usize + r.usize(3) - 1, _ => r.usize(1_500_000) }
        };
        let name = r.pick(&["plain.bin", "with space.dat", "ünïcödé.x", "a.b.c", "x"]).to_string();
        let src_dir = ctx.scratch.join(format!("src{}", i));
        std::fs::create_dir_all(&src_dir).unwrap();
        let path = src_dir.join(&name);
        let data = r.bytes(size);
        std::fs::write(&path, &data).unwrap();
        rep.evaluations += 1;
        let tracker = "http://127.0.0.1:8000/announce".to_string();
        let res = catch(|| Metainfo::create_file(&path, &tracker));
        let tfile = ctx.scratch.join(format!("{}.torrent", name));
        let verdict: Result<(), String> = (|| {
            match res {
                Err(p) => return Err(format!("create_file panicked: {}", p)),
                Ok(Err(e)) => return Err(format!("create_file failed: {}", e)),
                Ok(Ok(())) => (),
            }
            let m = catch(|| Metainfo::from_file(&tfile)).map_err(|p| format!("from_file panicked: {}", p))?.map_err(|e| format!("created torrent does not parse: {}", e))?;
            if m.tracker_url() != &tracker { return Err("tracker url differs".into()); }
            if m.total_length() as usize != size { return Err(format!("length {} != {}", m.total_length(), size)); }
            let ranges = m.file_piece_ranges();
            if ranges.len() != 1 || ranges[0].0 != PathBuf::from(&name) { return Err(format!("name {:?} != {:?}", ranges.get(0).map(|r| r.0.clone()), name)); }
            let chunks: Vec<[u8; 20]> = data.chunks(262144).map(sha1).collect();
            if m.pieces_num() != chunks.len() { return Err(format!("{} piece hashes, file has {} chunks of 256 KiB", m.pieces_num(), chunks.len())); }
            for (j, h) in chunks.iter().enumerate() {
                if m.piece(j) != h { return Err(format!("hash of chunk {} differs", j)); }
                let want = if j + 1 < chunks.len() { 262144 } else { size - 262144 * (chunks.len() - 1) };
                if m.piece_length(j) != want { return Err(format!("piece_length({}) {} != {}", j, m.piece_length(j), want)); }
            }
            Ok(())
        })();
        match verdict {
            Ok(()) => { rep.count("create_roundtrips", 1); rep.distinct(&("create", size, &name)); rep.set("create_sizes", size.to_string()); }
            Err(e) => rep.violation("C17:create-roundtrip", e, json!({"file_size": size, "name": name})),
        }
        let _ = std::fs::remove_file(&tfile);
        let _ = std::fs::remove_dir_all(&src_dir);
    }
    // a file whose name is not valid UTF-8: either refused, or the created torrent names it byte for byte
    if ctx.want("create") && ctx.shard == 0 {
        use std::os::unix::ffi::OsStrExt;
        for raw in [&b"caf\xE9.bin"[..], &b"\xff\xfe"[..], &b"ok-\x80-tail.dat"[..]] {
            let src_dir = ctx.scratch.join("src-nonutf8");
            let _ = std::fs::remove_dir_all(&src_dir);
            std::fs::create_dir_all(&src_dir).unwrap();
            let path = src_dir.join(std::ffi::OsStr::from_bytes(raw));
            if std::fs::write(&path, b"0123456789").is_err() { rep.inconclusive("file system refuses non-UTF-8 names"); continue; }
            let before: std::collections::BTreeSet<PathBuf> = std::fs::read_dir(&ctx.scratch).map(|d| d.flatten().map(|e| e.path()).collect()).unwrap_or_default();
            rep.evaluations += 1;
            let res = catch(|| Metainfo::create_file(&path, &"http://127.0.0.1:8000/announce".to_string()));
            let after: Vec<PathBuf> = std::fs::read_dir(&ctx.scratch).map(|d| d.flatten().map(|e| e.path()).filter(|p| !before.contains(p) && p.extension().map(|x| x == "torrent").unwrap_or(false)).collect()).unwrap_or_default();
            match res {
                Err(p) => rep.violation(&format!("C17:panic-create:{}", panic_site(&p)), p, json!({"file_name": show(raw)})),
                Ok(Err(_)) => rep.count("create_refused_non_utf8_name", 1),
                Ok(Ok(())) => {
                    let named_ok = after.iter().any(|t| match catch(|| Metainfo::from_file(t)) { Ok(Ok(m)) => m.file_piece_ranges().get(0).map(|r| r.0.as_os_str().as_bytes() == raw).unwrap_or(false), _ => false });
                    if named_ok { rep.count("create_roundtrips", 1); }
                    else { rep.violation("C17:create-roundtrip", format!("file name {} is not valid UTF-8; the created torrent does not name it byte for byte", show(raw)), json!({"file_name": show(raw)})); }
                }
            }
            for t in after { let _ = std::fs::remove_file(t); }
            let _ = std::fs::remove_dir_all(&src_dir);
        }
    }
    let _ = std::env::set_current_dir("/");
    rep
}
