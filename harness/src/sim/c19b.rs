//! C19 part b — tracker fault sequences in the simulation (scripted, gated tracker).
use crate::util::{Ctx, Report};
pub fn run(_ctx: &Ctx, _rep: &mut Report) {}
