//! C19 part b — tracker fault sequences against the real manager in the simulation.
//! The scripted tracker is *gated*: it keeps failing until a probe connection that came in while
//! it was failing has been answered (or 30 failing rounds have passed), so the verdict is causal
//! and independent of machine load; then it replies with the peer list.

use crate::checks::c02::{addr, peer_id};
use crate::sim::peers::{seeder, SeederCfg};
use crate::sim::{disk_never, fmt_ev, run_sim, Entry, EvKind, PeerSpec, SimCfg, TrackerStep};
use crate::torrent::gen_sim_torrent;
use crate::util::{hash64, panic_site, Ctx, Report, Rng, Tier};
use crate::wire::{bitfield_bytes, Msg};
use serde_json::json;
use std::rc::Rc;

pub const KINDS: [&str; 4] = ["connection-refused", "http-500", "garbage-body", "failure-reason"];

fn step_of(kind: usize) -> TrackerStep {
    match kind {
        0 => TrackerStep::Fail("error sending request: connection refused".into()),
        1 => TrackerStep::Fail("500 Internal Server Error".into()),
        2 => TrackerStep::Body(b"<html>\x00\xffnot bencode".to_vec()),
        _ => TrackerStep::Body(b"d14:failure reason19:torrent not allowede".to_vec()),
    }
}

const MAX_ROUNDS_UNANSWERED: u64 = 30;

pub fn run_one(ctx: &Ctx, rep: &mut Report, seq: &[usize], seed: u64, label: &str) {
    let mut sr = Rng::new(seed);
    let torrent = Rc::new(gen_sim_torrent(&mut sr, 4, true));
    let n = torrent.n();
    let l = seq.len() as u64;
    // two listed seeders, one probe that connects in while the tracker is failing
    let mut peers = vec![];
    for k in 0..2 {
        let mut s = SeederCfg::honest(peer_id(k), vec![true; n]);
        s.unchoke_after_ms = Some(0);
        let s2 = s.clone();
        peers.push(PeerSpec { addr: addr(k), id: peer_id(k), entry: Entry::Dialled { from_announce: 0 }, make: Box::new(move |nth| if nth > 2 { None } else { Some(seeder(s2.clone())) }), chunk: 0, pipe: 1 << 20 });
    }
    let probe_addr = addr(9);
    let probe_round = if l == 0 { 0 } else { sr.range(1, l.min(3)) };
    let probe_at = 100 + 1100 * probe_round + 50;
    let has_probe = l > 0;
    if has_probe {
        let mut first = Msg::handshake(&torrent.info_hash(), &peer_id(9)).encode();
        first.extend_from_slice(&Msg::Bitfield(bitfield_bytes(&vec![false; n])).encode());
        let script = vec![(0u64, first)];
        peers.push(PeerSpec { addr: probe_addr.clone(), id: peer_id(9), entry: Entry::Incoming { at_ms: probe_at }, make: Box::new(move |nth| if nth > 1 { None } else { Some(crate::checks::c20::scripted_structured(script.clone())) }), chunk: 0, pipe: 1 << 20 });
    }
    let seq_v: Vec<usize> = seq.to_vec();
    let pa = probe_addr.clone();
    let good_served = Rc::new(std::cell::Cell::new(false));
    let gs = good_served.clone();
    let tracker_fn: Box<dyn FnMut(u64, &crate::sim::Log) -> TrackerStep> = Box::new(move |nth, log| {
        if (nth as usize) < seq_v.len() { return step_of(seq_v[nth as usize]); }
        if !has_probe { gs.set(true); return TrackerStep::Good; }
        // gate: keep failing until the probe has been answered, at most 30 rounds after it connected
        let answered = log.0.borrow().events.iter().any(|e| e.addr == pa && matches!(&e.kind, EvKind::Send { msg: Msg::Handshake { .. }, .. }));
        if answered || nth >= probe_round + MAX_ROUNDS_UNANSWERED + 2 { gs.set(true); TrackerStep::Good } else { step_of(seq_v[(nth as usize) % seq_v.len()]) }
    });
    // the property sets no pace for the retries: the horizon allows a minute of virtual time per
    // round, and a run in which the good reply was not even asked for by then is inconclusive
    let max_ms = (l + MAX_ROUNDS_UNANSWERED + 10) * 60_000 + 30_000;
    let cfg = SimCfg { torrent: torrent.clone(), peers, tracker: vec![], failpoints: None, max_virtual_ms: max_ms, stop_on_extract: true, linger_ms: 200, disk_on: disk_never, seed, pre: None, tracker_fn: Some(tracker_fn), driver: None };
    rep.evaluations += 1;
    let o = run_sim(cfg, &ctx.scratch, 180);
    let names: Vec<&str> = seq.iter().map(|k| KINDS[*k]).collect();
    let desc = json!({"fault_sequence": if seq.len() <= 12 { json!(names) } else { json!(format!("{} faults cycling {:?}", seq.len(), &names[..4.min(names.len())])) }, "length": l, "family": label, "probe_connects_at_ms": if has_probe { Some(probe_at) } else { None }, "seed": seed});
    if o.watchdog { rep.inconclusive(format!("watchdog ({:?})", desc)); return; }
    rep.distinct(&hash64(&seq));
    let trace = || -> Vec<String> {
        let v: Vec<String> = o.events.iter().filter(|e| matches!(&e.kind, EvKind::Note { .. } | EvKind::Mgr { .. }) || e.addr == probe_addr).filter(|e| !matches!(&e.kind, EvKind::Mgr { kind, .. } if *kind == "SyncStats" || *kind == "Rotation")).filter(|e| !matches!(e.kind, EvKind::RecvWait { .. })).map(fmt_ev).collect();
        let a: Vec<String> = v.iter().take(14).cloned().collect();
        let b: Vec<String> = v.iter().rev().take(8).rev().cloned().collect();
        [a, vec!["...".to_string()], b].concat()
    };
    if let Some(p) = o.panics.first() {
        rep.violation(&format!("C19:panic:{}", panic_site(p)), p.clone(), json!({"scenario": desc, "trace": trace()}));
        return;
    }
    let fails_seen = o.mgr().filter(|(_, k, _)| *k == "TrackerFail").count() as u64;
    rep.count("tracker_failures_handled_by_manager", fails_seen);
    rep.max("longest_fault_run", o.events.iter().filter(|e| matches!(&e.kind, EvKind::Note { text } if text.contains("-> fail") || text.contains("-> body"))).count() as u64);
    // (1) while the tracker is failing the session keeps serving: the probe must be answered
    if has_probe {
        let connected = o.events.iter().find(|e| e.addr == probe_addr && matches!(e.kind, EvKind::PeerSent { .. })).map(|e| e.ms);
        let answered = o.events.iter().find(|e| e.addr == probe_addr && matches!(&e.kind, EvKind::Send { msg: Msg::Handshake { .. }, .. })).map(|e| e.ms);
        let announces_after_probe = o.events.iter().filter(|e| matches!(&e.kind, EvKind::Note { text } if text.starts_with("announce #")) && Some(e.ms) >= connected).count() as u64;
        match (connected, answered) {
            (Some(c), Some(a)) => {
                let rounds_waited = o.events.iter().filter(|e| e.ms >= c && e.ms <= a && matches!(&e.kind, EvKind::Note { text } if text.starts_with("announce #"))).count() as u64;
                if rounds_waited >= MAX_ROUNDS_UNANSWERED {
                    rep.violation("C19:session-not-serving-while-tracker-fails", format!("a peer connected in at t={} ms while the tracker was failing; it was answered only at t={} ms, after {} further failing announce rounds (i.e. once the tracker stopped failing)", c, a, rounds_waited), json!({"scenario": desc, "trace": trace()}));
                    return;
                }
                rep.count("probes_answered_while_tracker_failing", 1);
                rep.max("probe_answer_delay_ms", a - c);
            }
            (Some(c), None) => {
                rep.violation("C19:session-not-serving-while-tracker-fails", format!("a peer connected in at t={} ms while the tracker was failing; {} more announce rounds went by (manager handled {} failures) and its handshake was never answered", c, announces_after_probe, fails_seen), json!({"scenario": desc, "trace": trace()}));
                return;
            }
            (None, _) => { rep.inconclusive("probe never connected"); return; }
        }
    }
    // (2) the first good reply is followed by contacting the listed peers with a correct handshake
    let good_at = o.mgr().find(|(_, k, _)| *k == "TrackerResp").map(|(e, _, _)| e.ms);
    match good_at {
        None if !good_served.get() => {
            rep.inconclusive(format!("only {} announces in {} s of virtual time: the good reply after {} faults was never asked for", o.tracker_calls, o.end_ms / 1000, l));
        }
        None => {
            rep.violation("C19:good-reply-never-processed", format!("after {} faults the good reply was never handled by the manager (tracker announces made: {})", l, o.tracker_calls), json!({"scenario": desc, "trace": trace()}));
        }
        Some(t) => {
            for k in 0..2 {
                let hs = o.events.iter().find(|e| e.addr == addr(k) && matches!(&e.kind, EvKind::Send { msg: Msg::Handshake { info_hash, peer_id, .. }, .. } if *info_hash == torrent.info_hash() && *peer_id == crate::sim::OWN_ID));
                match hs {
                    Some(e) if e.ms <= t + 5_000 => (),
                    other => {
                        rep.violation("C19:listed-peers-not-contacted", format!("good reply handled at t={} ms but listed peer {} got {:?}", t, addr(k), other.map(|e| e.ms)), json!({"scenario": desc, "trace": trace()}));
                        return;
                    }
                }
            }
            rep.count("fault_sequences_survived", 1);
            rep.set("fault_sequence_lengths", format!("{}", l));
            if rep.samples.len() < 3 { rep.sample(json!({"scenario": desc, "tracker_failures_handled": fails_seen, "good_reply_at_ms": t})); }
        }
    }
}

/// Family "reply while twelve interesting peers are connected": eleven listed seeders that never
/// unchoke, one or two more that connect in, one listed peer that leaves after a moment (which makes
/// the manager announce again with an empty candidate list): the good reply to that announce is
/// handled while the client is interested in more peers than it ever dials by itself.
pub fn run_crowded(ctx: &Ctx, rep: &mut Report, seed: u64) {
    let mut sr = Rng::new(seed);
    let torrent = Rc::new(gen_sim_torrent(&mut sr, 4, true));
    let n = torrent.n();
    let mut peers = vec![];
    // ten listed seeders + the one that leaves = the eleven the client dials at once, so that its
    // candidate list is empty when that one leaves; three more seeders connect in
    let listed = 10usize;
    for k in 0..listed + 3 {
        let mut s = SeederCfg::honest(peer_id(k), vec![true; n]);
        s.unchoke_after_ms = Some(100_000_000);
        s.idle_close_ms = 100_000_000;
        s.chatter_ms = Some(50_000);
        let incoming = k >= listed;
        s.incoming = incoming;
        let s2 = s.clone();
        peers.push(PeerSpec { addr: addr(k), id: peer_id(k), entry: if incoming { Entry::Incoming { at_ms: 500 + 200 * (k as u64 - listed as u64) } } else { Entry::Dialled { from_announce: 0 } }, make: Box::new(move |nth| if nth > 1 { None } else { Some(seeder(s2.clone())) }), chunk: 0, pipe: 1 << 20 });
    }
    // the one that leaves
    let mut q = SeederCfg::honest(peer_id(20), vec![true; n]);
    q.unchoke_after_ms = Some(100_000_000);
    q.idle_close_ms = 100_000_000;
    q.disc = Some(crate::sim::peers::Disc::AtMs(sr.range(1_500, 4_000)));
    let q2 = q.clone();
    peers.push(PeerSpec { addr: addr(20), id: peer_id(20), entry: Entry::Dialled { from_announce: 0 }, make: Box::new(move |nth| if nth > 1 { None } else { Some(seeder(q2.clone())) }), chunk: 0, pipe: 1 << 20 });
    let cfg = SimCfg { torrent: torrent.clone(), peers, tracker: vec![], failpoints: None, max_virtual_ms: 30_000, stop_on_extract: true, linger_ms: 200, disk_on: disk_never, seed, pre: None, tracker_fn: None, driver: None };
    rep.evaluations += 1;
    let o = run_sim(cfg, &ctx.scratch, 180);
    let desc = json!({"family": "good reply handled while the client is interested in 12+ connected peers", "seed": seed});
    if o.watchdog { rep.inconclusive(format!("watchdog ({:?})", desc)); return; }
    let max_interesting = o.mgr().map(|(_, _, s)| s.peers.iter().filter(|p| p.am_interested).count()).max().unwrap_or(0);
    let replies = o.mgr().filter(|(_, k, _)| *k == "TrackerResp").count();
    let crowded_reply = o.mgr().any(|(_, k, s)| k == "TrackerResp" && s.peers.iter().filter(|p| p.am_interested).count() >= 12);
    rep.max("interesting_peers_connected_at_once", max_interesting as u64);
    if std::env::var("VH_DEBUG").is_ok() {
        for (e, k, s) in o.mgr() { if k == "TrackerResp" || k == "KillReq" || k == "TrackerFail" { println!("t={} {} {} interesting={} peers={} cand={}", e.ms, k, e.addr, s.peers.iter().filter(|p| p.am_interested).count(), s.peers.len(), s.candidates.len()); } }
    }
    let trace = || -> Vec<String> { o.events.iter().filter(|e| matches!(&e.kind, EvKind::Note { .. } | EvKind::Mgr { .. })).filter(|e| !matches!(&e.kind, EvKind::Mgr { kind, .. } if *kind == "SyncStats" || *kind == "Rotation")).map(fmt_ev).map(|l| l.chars().take(200).collect()).rev().take(14).collect::<Vec<String>>().into_iter().rev().collect() };
    if let Some(p) = o.panics.first() {
        rep.violation(&format!("C19:panic:{}", panic_site(p)), p.clone(), json!({"scenario": desc, "trace": trace()}));
        return;
    }
    if o.session_panicked || !o.session_alive_at_end {
        rep.violation("C19:session-dead-after-reply", format!("the manager no longer answers after {} tracker replies ({} interesting peers connected)", replies, max_interesting), json!({"scenario": desc, "trace": trace()}));
        return;
    }
    if crowded_reply { rep.count("replies_handled_with_12_or_more_interesting_peers", 1); }
    rep.distinct(&hash64(&("crowded", seed % 64)));
}

/// Family "overlapping announces": two peers of the first reply refuse the connection, which makes
/// the manager re-announce twice at once; the first of those announces succeeds, the other one keeps
/// failing. The session must keep serving while that one fails.
pub fn run_overlap(ctx: &Ctx, rep: &mut Report, seed: u64, fault_kind: usize) {
    let mut sr = Rng::new(seed);
    let torrent = Rc::new(gen_sim_torrent(&mut sr, 4, true));
    let n = torrent.n();
    let mut peers = vec![];
    for k in 0..2 {
        // listed, but nobody listens there
        peers.push(PeerSpec { addr: addr(k), id: peer_id(k), entry: Entry::Dialled { from_announce: 0 }, make: Box::new(move |_| None), chunk: 0, pipe: 1 << 20 });
    }
    let mut s = SeederCfg::honest(peer_id(2), vec![true; n]);
    s.unchoke_after_ms = Some(0);
    let s2 = s.clone();
    peers.push(PeerSpec { addr: addr(2), id: peer_id(2), entry: Entry::Dialled { from_announce: 2 }, make: Box::new(move |nth| if nth > 2 { None } else { Some(seeder(s2.clone())) }), chunk: 0, pipe: 1 << 20 });
    let probe_addr = addr(9);
    let probe_at = 1_000 + sr.range(0, 3_000);
    let mut first = Msg::handshake(&torrent.info_hash(), &peer_id(9)).encode();
    first.extend_from_slice(&Msg::Bitfield(bitfield_bytes(&vec![false; n])).encode());
    let script = vec![(0u64, first)];
    peers.push(PeerSpec { addr: probe_addr.clone(), id: peer_id(9), entry: Entry::Incoming { at_ms: probe_at }, make: Box::new(move |nth| if nth > 1 { None } else { Some(crate::checks::c20::scripted_structured(script.clone())) }), chunk: 0, pipe: 1 << 20 });
    let pa = probe_addr.clone();
    let mut fails = 0u64;
    let tracker_fn: Box<dyn FnMut(u64, &crate::sim::Log) -> TrackerStep> = Box::new(move |nth, log| {
        if nth < 2 { return TrackerStep::Good; }
        let answered = log.0.borrow().events.iter().any(|e| e.addr == pa && matches!(&e.kind, EvKind::Send { msg: Msg::Handshake { .. }, .. }));
        let now = log.now_ms();
        if (answered && now > probe_at) || fails >= MAX_ROUNDS_UNANSWERED + 6 { TrackerStep::Good } else { fails += 1; step_of(fault_kind) }
    });
    let cfg = SimCfg { torrent: torrent.clone(), peers, tracker: vec![], failpoints: None, max_virtual_ms: 120_000, stop_on_extract: true, linger_ms: 200, disk_on: disk_never, seed, pre: None, tracker_fn: Some(tracker_fn), driver: None };
    rep.evaluations += 1;
    let o = run_sim(cfg, &ctx.scratch, 180);
    let desc = json!({"family": "overlapping announces: reply #0 lists two unreachable peers; of the two re-announces the first succeeds, the second keeps failing", "fault": KINDS[fault_kind], "probe_connects_at_ms": probe_at, "seed": seed});
    if o.watchdog { rep.inconclusive(format!("watchdog ({:?})", desc)); return; }
    rep.distinct(&hash64(&("overlap", fault_kind, probe_at / 500)));
    let trace = || -> Vec<String> {
        let v: Vec<String> = o.events.iter().filter(|e| matches!(&e.kind, EvKind::Note { .. } | EvKind::Mgr { .. }) || e.addr == probe_addr).filter(|e| !matches!(&e.kind, EvKind::Mgr { kind, .. } if *kind == "SyncStats" || *kind == "Rotation")).filter(|e| !matches!(e.kind, EvKind::RecvWait { .. })).map(fmt_ev).collect();
        v.iter().take(26).cloned().collect()
    };
    if let Some(p) = o.panics.first() {
        rep.violation(&format!("C19:panic:{}", panic_site(p)), p.clone(), json!({"scenario": desc, "trace": trace()}));
        return;
    }
    let connected = o.events.iter().find(|e| e.addr == probe_addr && matches!(e.kind, EvKind::PeerSent { .. })).map(|e| e.ms);
    let answered = o.events.iter().find(|e| e.addr == probe_addr && matches!(&e.kind, EvKind::Send { msg: Msg::Handshake { .. }, .. })).map(|e| e.ms);
    let failing_rounds = |from: u64, to: u64| o.events.iter().filter(|e| e.ms >= from && e.ms <= to && matches!(&e.kind, EvKind::Note { text } if text.contains("-> fail") || text.contains("-> body"))).count() as u64;
    match (connected, answered) {
        (Some(c), Some(a)) if failing_rounds(c, a) < MAX_ROUNDS_UNANSWERED => { rep.count("overlap_probes_answered_while_tracker_failing", 1); rep.count("probes_answered_while_tracker_failing", 1); }
        (Some(c), a) => {
            rep.violation("C19:session-blocked-by-overlapping-announce", format!("a peer connected in at t={} ms while one of two overlapping announces kept failing; answered at {:?} after {} failing rounds", c, a, failing_rounds(c, a.unwrap_or(u64::MAX))), json!({"scenario": desc, "trace": trace()}));
            return;
        }
        (None, _) => { rep.inconclusive("probe never connected"); return; }
    }
    // once the tracker recovers, the seeder it lists is contacted
    let hs = o.events.iter().find(|e| e.addr == addr(2) && matches!(&e.kind, EvKind::Send { msg: Msg::Handshake { .. }, .. }));
    if hs.is_none() {
        rep.violation("C19:listed-peers-not-contacted", "after the tracker recovered the listed seeder was never contacted".to_string(), json!({"scenario": desc, "trace": trace()}));
        return;
    }
    rep.count("fault_sequences_survived", 1);
}

pub fn run(ctx: &Ctx, rep: &mut Report) {
    rep.need("fault_sequences_survived", 20);
    rep.need("probes_answered_while_tracker_failing", 20);
    // (a) all sequences over the 4 fault kinds of length 0..=3 (85), sharded
    let mut all: Vec<Vec<usize>> = vec![vec![]];
    for len in 1..=3usize {
        for c in 0..4usize.pow(len as u32) {
            let mut v = vec![];
            let mut x = c;
            for _ in 0..len { v.push(x % 4); x /= 4; }
            all.push(v);
        }
    }
    let mut r = ctx.rng("c19b");
    for (i, s) in all.iter().enumerate() {
        if i % ctx.nshards != ctx.shard { continue; }
        run_one(ctx, rep, s, r.next(), "exhaustive<=3");
        rep.distinct_enumerated += 0;
    }
    rep.exhaustive_parts.push("all fault sequences over {connection refused, HTTP 500, garbage body, failure reason} of length 0..=3 (85)".into());
    // (b) long runs around the channel capacity (64) and beyond
    let longs: Vec<u64> = match ctx.tier { Tier::Quick => vec![10, 63, 64, 65, 70], Tier::Thorough => vec![10, 31, 32, 33, 63, 64, 65, 66, 70, 100, 130, 200] };
    for (i, l) in longs.iter().enumerate() {
        if i % ctx.nshards != ctx.shard { continue; }
        let s: Vec<usize> = (0..*l).map(|j| (j % 4) as usize).collect();
        run_one(ctx, rep, &s, r.next(), "long");
    }
    // (b2) overlapping announces
    for i in 0..ctx.count(32, 800) {
        run_overlap(ctx, rep, r.next(), (i % 4) as usize);
    }
    // (b3) a good reply handled while more interesting peers are connected than the client dials
    for _ in 0..ctx.count(32, 400) {
        run_crowded(ctx, rep, r.next());
    }
    // (c) random sequences of length <= 8
    for _ in 0..ctx.count(160, 4_000) {
        let l = r.range(1, 8) as usize;
        let s: Vec<usize> = (0..l).map(|_| r.usize(4)).collect();
        run_one(ctx, rep, &s, r.next(), "random<=8");
    }
}
