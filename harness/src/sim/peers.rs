//! Scripted peer personas. All of them speak through the harness' own codec (wire.rs) and log
//! what they send and receive.

use super::{Behaviour, PeerIo};
use crate::util::Rng;
use crate::wire::{bitfield_bytes, Msg};
use std::collections::VecDeque;
use tokio::time::Duration;

#[derive(Clone, Debug, PartialEq)]
pub enum Hs {
    /// correct info-hash, the id the tracker announced
    Normal,
    WrongHash,
    WrongId,
    WrongProto,
    /// never sends a handshake
    Absent,
}

#[derive(Clone, Debug, Default)]
pub struct Corrupt {
    /// per mille probabilities per served block
    pub flip: u64,
    pub wrong_offset: u64,
    pub wrong_index: u64,
    pub short: u64,
    pub long: u64,
    pub dup: u64,
    pub unrequested: u64,
    pub overlap: u64,
    /// multiply the probabilities by 5 for the last outstanding block of a piece
    pub prefer_completing: bool,
}

impl Corrupt {
    pub fn any(&self) -> bool {
        self.flip + self.wrong_offset + self.wrong_index + self.short + self.long + self.dup + self.unrequested + self.overlap > 0
    }
}

#[derive(Clone, Debug, PartialEq)]
pub enum ChokeAct {
    Choke,
    Unchoke,
    /// Unchoke although already unchoked
    DoubleUnchoke,
    DoubleChoke,
}

#[derive(Clone, Debug)]
pub enum Disc {
    /// close after having served this many blocks
    AfterBlocks(u64),
    /// close right after receiving the n-th request (before answering)
    OnRequest(u64),
    /// write half a piece message then close
    MidFrame(u64),
    /// close at this virtual time after connecting
    AtMs(u64),
}

#[derive(Clone, Debug)]
pub struct SeederCfg {
    pub id: [u8; 20],
    /// we connect to the client (true) or the client dialled us (false)
    pub incoming: bool,
    pub hs: Hs,
    pub have: Vec<bool>,
    /// announce pieces with Have messages instead of a Bitfield
    pub haves_instead_of_bitfield: bool,
    /// unchoke this long after the handshake (None: only on Interested)
    pub unchoke_after_ms: Option<u64>,
    /// extra choke-state messages: (after this many served blocks, action, then after ms undo)
    pub choke_plan: Vec<(u64, ChokeAct, u64)>,
    pub latency_ms: (u64, u64),
    pub corrupt: Corrupt,
    pub disc: Option<Disc>,
    /// close this long after the client last showed interest / after idle
    pub idle_close_ms: u64,
    /// also behave as a leecher: send Interested and request owned pieces of the client
    pub leech: bool,
    /// answer requests even while choking (a sloppy but harmless peer)
    pub serve_while_choking: bool,
    /// Have messages sent later: (at served-blocks count, piece)
    pub late_haves: Vec<(u64, usize)>,
    /// choke-state messages at fixed times after connecting: (ms, action)
    pub timed: Vec<(u64, ChokeAct)>,
    /// after serving this many blocks: keep the connection open but never send anything again
    pub silent_after_blocks: Option<u64>,
    /// advertise only these pieces at first (the rest of `have` is announced by `late_haves`)
    pub initial_advert: Option<Vec<bool>>,
    /// re-send the Bitfield (what has been advertised so far) after this many served blocks
    pub rebitfield_at: Vec<u64>,
    /// a re-sent Bitfield omits the piece requested last (and keeps serving it): a sloppy peer
    pub rebitfield_drops: bool,
    /// Have messages at fixed times after connecting: (ms, piece)
    pub timed_haves: Vec<(u64, usize)>,
    /// keep the connection alive for ever: every so many ms repeat a Have for an advertised piece
    pub chatter_ms: Option<u64>,
    /// answer the first two (full) blocks of a piece with the right bytes under each other's
    /// offsets: in arrival order the payloads still concatenate to the true piece
    pub mislabel: bool,
    /// per mille: after serving the block that completes a piece, ask the client for a block of
    /// that very piece (without having been unchoked by it, without even declaring interest)
    pub request_back: u64,
}

impl SeederCfg {
    pub fn honest(id: [u8; 20], have: Vec<bool>) -> SeederCfg {
        SeederCfg {
            id,
            incoming: false,
            hs: Hs::Normal,
            have,
            haves_instead_of_bitfield: false,
            unchoke_after_ms: None,
            choke_plan: vec![],
            latency_ms: (0, 0),
            corrupt: Corrupt::default(),
            disc: None,
            idle_close_ms: 30_000,
            mislabel: false,
            request_back: 0,
            leech: false,
            serve_while_choking: false,
            late_haves: vec![],
            timed: vec![],
            silent_after_blocks: None,
            initial_advert: None,
            rebitfield_at: vec![],
            rebitfield_drops: false,
            timed_haves: vec![],
            chatter_ms: None,
        }
    }
}

pub fn handshake_msg(io: &PeerIo, hs: &Hs, id: &[u8; 20]) -> Option<Msg> {
    let ih = io.torrent.info_hash();
    match hs {
        Hs::Normal => Some(Msg::handshake(&ih, id)),
        Hs::WrongHash => {
            let mut h = ih;
            h[7] ^= 0x40;
            Some(Msg::handshake(&h, id))
        }
        Hs::WrongId => {
            let mut i = *id;
            i[19] ^= 0x01;
            Some(Msg::handshake(&ih, &i))
        }
        Hs::WrongProto => Some(Msg::Handshake { proto: b"BitTorrent protocoX".to_vec(), reserved: [0; 8], info_hash: ih, peer_id: *id }),
        Hs::Absent => None,
    }
}

/// The knob-driven seeder (honest by default).
pub fn seeder(cfg: SeederCfg) -> Behaviour {
    Box::new(move |io| Box::pin(seeder_task(cfg, io)))
}

async fn seeder_task(cfg: SeederCfg, mut io: PeerIo) {
    let t = io.torrent.clone();
    let start = io.log.now_ms();
    // --- handshake ---------------------------------------------------------------------------
    if cfg.incoming {
        if let Some(h) = handshake_msg(&io, &cfg.hs, &cfg.id) {
            if !io.send(&h).await { return; }
        }
    }
    // the client's handshake
    match io.recv_within(400_000).await {
        Ok(Some(Msg::Handshake { .. })) => (),
        _ => { io.close(); return; }
    }
    if !cfg.incoming {
        if let Some(h) = handshake_msg(&io, &cfg.hs, &cfg.id) {
            if !io.send(&h).await { return; }
        }
    }
    let mut advertised: Vec<bool> = cfg.initial_advert.clone().unwrap_or_else(|| cfg.have.clone());
    if cfg.haves_instead_of_bitfield {
        for (i, h) in advertised.iter().enumerate() {
            if *h && !io.send(&Msg::Have(i as u32)).await { return; }
        }
    } else if !io.send(&Msg::Bitfield(bitfield_bytes(&advertised))).await {
        return;
    }
    let mut rebit: VecDeque<u64> = cfg.rebitfield_at.iter().cloned().collect();
    if cfg.leech {
        let _ = io.send(&Msg::Interested).await;
    }
    let mut choking = true;
    if cfg.unchoke_after_ms == Some(0) {
        if !io.send(&Msg::Unchoke).await { return; }
        choking = false;
    }
    let mut served: u64 = 0;
    let mut requests: u64 = 0;
    let mut client_interested = false;
    let mut last_activity = io.log.now_ms();
    let mut last_chatter = io.log.now_ms();
    // delayed actions: (due_ms, action)
    enum Act { Serve(u32, u32, u32), Choke(ChokeAct), Have(usize) }
    let mut queue: VecDeque<(u64, Act)> = VecDeque::new();
    if let Some(ms) = cfg.unchoke_after_ms {
        if ms > 0 { queue.push_back((start + ms, Act::Choke(ChokeAct::Unchoke))); }
    }
    for (ms, a) in &cfg.timed { queue.push_back((start + ms, Act::Choke(a.clone()))); }
    for (ms, pc) in &cfg.timed_haves { queue.push_back((start + ms, Act::Have(*pc))); }
    let mut plan: VecDeque<(u64, ChokeAct, u64)> = cfg.choke_plan.iter().cloned().collect();
    let mut late: VecDeque<(u64, usize)> = cfg.late_haves.iter().cloned().collect();
    // outstanding requests per piece, to know which block completes a piece
    let mut got_blocks: std::collections::HashMap<u32, std::collections::HashSet<u32>> = Default::default();
    loop {
        if let Some(k) = cfg.silent_after_blocks {
            if served >= k {
                io.log.note(&io.addr, "falls silent (connection stays open)");
                loop { if io.recv().await.is_none() { return; } }
            }
        }
        let now = io.log.now_ms();
        if let Some(Disc::AtMs(ms)) = cfg.disc { if now >= start + ms { io.close(); return; } }
        // run due actions (in due order)
        let mut due_idx = None;
        for (k, (due, _)) in queue.iter().enumerate() {
            if *due <= now && due_idx.map(|(_, d)| *due < d).unwrap_or(true) { due_idx = Some((k, *due)); }
        }
        if let Some((k, _)) = due_idx {
            let (_, act) = queue.remove(k).unwrap();
            match act {
                Act::Have(pc) => {
                    if pc < advertised.len() { advertised[pc] = true; }
                    if !io.send(&Msg::Have(pc as u32)).await { return; }
                }
                Act::Choke(a) => {
                    let m = match a { ChokeAct::Choke | ChokeAct::DoubleChoke => Msg::Choke, _ => Msg::Unchoke };
                    choking = matches!(m, Msg::Choke);
                    if !io.send(&m).await { return; }
                    if matches!(a, ChokeAct::DoubleUnchoke | ChokeAct::DoubleChoke) {
                        if !io.send(&m).await { return; }
                    }
                }
                Act::Serve(i, b, l) => {
                    if choking && !cfg.serve_while_choking { continue; }
                    let iu = i as usize;
                    if iu >= t.n() || !cfg.have[iu] { continue; }
                    let p = t.piece(iu);
                    if (b as usize) + (l as usize) > p.len() { continue; }
                    let data = p[b as usize..(b + l) as usize].to_vec();
                    // is this the block that completes the piece?
                    let nblocks = crate::wire::tiling(p.len()).len();
                    let set = got_blocks.entry(i).or_default();
                    let completing = set.len() + 1 >= nblocks && !set.contains(&b);
                    let mult = if completing && cfg.corrupt.prefer_completing { 5 } else { 1 };
                    let c = &cfg.corrupt;
                    let roll = io.rng.below(1000);
                    let mut acc = 0;
                    let mut pick = |p: u64| { acc += p * mult; roll < acc };
                    let mut send_correct = true;
                    if c.any() {
                        if pick(c.flip) {
                            let mut d = data.clone();
                            if !d.is_empty() { let k = io.rng.usize(d.len()); d[k] ^= 1 << io.rng.below(8); }
                            io.log.note(&io.addr, format!("corrupt: flipped a bit in block ({},{})", i, b));
                            if !io.send(&Msg::Piece(i, b, d)).await { return; }
                            send_correct = false;
                            set.insert(b);
                        } else if pick(c.wrong_offset) {
                            io.log.note(&io.addr, format!("corrupt: wrong offset for block ({},{})", i, b));
                            if !io.send(&Msg::Piece(i, b.wrapping_add(1), data.clone())).await { return; }
                        } else if pick(c.wrong_index) {
                            io.log.note(&io.addr, format!("corrupt: wrong index for block ({},{})", i, b));
                            if !io.send(&Msg::Piece(i.wrapping_add(1), b, data.clone())).await { return; }
                        } else if pick(c.short) {
                            io.log.note(&io.addr, format!("corrupt: short block ({},{})", i, b));
                            if !io.send(&Msg::Piece(i, b, data[..data.len().saturating_sub(1)].to_vec())).await { return; }
                        } else if pick(c.long) {
                            let mut d = data.clone(); d.push(0xEE);
                            io.log.note(&io.addr, format!("corrupt: long block ({},{})", i, b));
                            if !io.send(&Msg::Piece(i, b, d)).await { return; }
                        } else if pick(c.dup) {
                            io.log.note(&io.addr, format!("duplicate block ({},{})", i, b));
                            if !io.send(&Msg::Piece(i, b, data.clone())).await { return; }
                        } else if pick(c.unrequested) {
                            let j = io.rng.usize(t.n());
                            let pj = t.piece(j);
                            let n = pj.len().min(16384);
                            io.log.note(&io.addr, format!("unrequested block ({},0)", j));
                            if !io.send(&Msg::Piece(j as u32, 0, pj[..n].to_vec())).await { return; }
                        } else if pick(c.overlap) && b > 0 {
                            io.log.note(&io.addr, format!("corrupt: overlapping block ({},{})", i, b - 1));
                            if !io.send(&Msg::Piece(i, b - 1, data.clone())).await { return; }
                        }
                    }
                    if send_correct {
                        if let Some(Disc::MidFrame(n)) = cfg.disc {
                            if served >= n {
                                let full = Msg::Piece(i, b, data.clone()).encode();
                                let cut = 5 + io.rng.usize(full.len() - 5);
                                let _ = io.send_raw(&full[..cut]).await;
                                io.close();
                                return;
                            }
                        }
                        let label = if cfg.mislabel && l == 16384 && (b == 0 || b == 16384) && p.len() >= 32768 {
                            io.log.note(&io.addr, format!("corrupt: block ({},{}) sent under offset {}", i, b, 16384 - b));
                            16384 - b
                        } else { b };
                        if !io.send(&Msg::Piece(i, label, data)).await { return; }
                        set.insert(b);
                        if set.len() >= nblocks && io.rng.below(1000) < cfg.request_back {
                            let l0 = p.len().min(16384) as u32;
                            io.log.note(&io.addr, format!("asking back for piece {} right after delivering it", i));
                            // give the client the time to verify and store it first
                            let until = io.log.now_ms() + 50;
                            while io.log.now_ms() < until { match io.recv_within(until - io.log.now_ms()).await { Ok(None) => return, Ok(Some(Msg::Request(ri, rb, rl))) => { let d = io.rng.range(cfg.latency_ms.0, cfg.latency_ms.1); queue.push_back((io.log.now_ms() + d, Act::Serve(ri, rb, rl))); } _ => () } }
                            if !io.send(&Msg::Request(i, 0, l0)).await { return; }
                        }
                    }
                    served += 1;
                    if let Some(Disc::AfterBlocks(n)) = cfg.disc { if served >= n { io.close(); return; } }
                    while let Some((at, _, _)) = plan.front() {
                        if *at > served { break; }
                        let (_, a, undo) = plan.pop_front().unwrap();
                        let now = io.log.now_ms();
                        let inverse = match a { ChokeAct::Choke | ChokeAct::DoubleChoke => ChokeAct::Unchoke, _ => ChokeAct::Choke };
                        queue.push_back((now, Act::Choke(a.clone())));
                        // a peer that follows the protocol eventually unchokes again
                        if matches!(a, ChokeAct::Choke | ChokeAct::DoubleChoke) { queue.push_back((now + undo.max(1), Act::Choke(inverse))); }
                    }
                    while let Some(at) = rebit.front() {
                        if *at > served { break; }
                        rebit.pop_front();
                        let mut bits = advertised.clone();
                        if cfg.rebitfield_drops && (i as usize) < bits.len() { bits[i as usize] = false; }
                        if !io.send(&Msg::Bitfield(bitfield_bytes(&bits))).await { return; }
                    }
                    while let Some((at, _)) = late.front() {
                        if *at > served { break; }
                        let (_, pc) = late.pop_front().unwrap();
                        if pc < advertised.len() { advertised[pc] = true; }
                        if !io.send(&Msg::Have(pc as u32)).await { return; }
                    }
                }
            }
            continue;
        }
        // chatter: a harmless real message that keeps the connection from timing out
        if let Some(c) = cfg.chatter_ms {
            if now >= last_chatter + c {
                last_chatter = now;
                last_activity = now;
                if let Some(i) = advertised.iter().position(|b| *b) { if !io.send(&Msg::Have(i as u32)).await { return; } }
                continue;
            }
        }
        // wait for the next message or the next due action
        let next_due = queue.iter().map(|q| q.0).min();
        let next_due = match cfg.chatter_ms { Some(c) => Some(next_due.unwrap_or(u64::MAX).min(last_chatter + c)), None => next_due };
        let idle_left = (last_activity + cfg.idle_close_ms).saturating_sub(now);
        if idle_left == 0 && queue.is_empty() { io.close(); return; }
        let wait = match next_due { Some(d) => d.saturating_sub(now).max(1).min(idle_left.max(1)), None => idle_left.max(1) };
        let wait = if let Some(Disc::AtMs(ms)) = cfg.disc { wait.min((start + ms).saturating_sub(now).max(1)) } else { wait };
        match io.recv_within(wait).await {
            Err(()) => continue,
            Ok(None) => return,
            Ok(Some(m)) => {
                match m {
                    Msg::Interested => {
                        client_interested = true;
                        last_activity = io.log.now_ms();
                        if choking && cfg.unchoke_after_ms.is_none() && !queue.iter().any(|q| matches!(q.1, Act::Choke(ChokeAct::Unchoke))) {
                            let d = io.rng.range(cfg.latency_ms.0, cfg.latency_ms.1);
                            queue.push_back((io.log.now_ms() + d, Act::Choke(ChokeAct::Unchoke)));
                        }
                    }
                    Msg::NotInterested => { client_interested = false; }
                    Msg::Request(i, b, l) => {
                        requests += 1;
                        last_activity = io.log.now_ms();
                        if let Some(Disc::OnRequest(n)) = cfg.disc { if requests >= n { io.close(); return; } }
                        let d = io.rng.range(cfg.latency_ms.0, cfg.latency_ms.1);
                        queue.push_back((io.log.now_ms() + d, Act::Serve(i, b, l)));
                    }
                    Msg::Cancel(i, b, _) => { queue.retain(|q| !matches!(q.1, Act::Serve(qi, qb, _) if qi == i && qb == b)); }
                    Msg::Unchoke => {
                        if cfg.leech { /* could request; kept simple: leeching is done by `leecher` */ }
                    }
                    _ => (),
                }
                let _ = client_interested;
            }
        }
    }
}

/// A peer that sends a fixed script of (delay_ms, bytes) and records everything the client writes.
/// After the script it keeps reading until `linger_ms` of silence, then closes (or stays open).
pub fn scripted(script: Vec<(u64, Vec<u8>)>, linger_ms: u64, close_at_end: bool) -> Behaviour {
    Box::new(move |mut io| Box::pin(async move {
        for (delay, bytes) in script {
            // keep draining what the client writes while waiting
            let until = io.log.now_ms() + delay;
            loop {
                let now = io.log.now_ms();
                if now >= until { break; }
                match io.recv_within(until - now).await { Ok(None) => break, _ => () }
            }
            if io.eof { break; }
            if !io.send_raw(&bytes).await { break; }
        }
        let mut quiet_since = io.log.now_ms();
        loop {
            if io.eof { return; }
            let now = io.log.now_ms();
            if now >= quiet_since + linger_ms { break; }
            match io.recv_within(quiet_since + linger_ms - now).await {
                Ok(Some(_)) => quiet_since = io.log.now_ms(),
                Ok(None) => return,
                Err(()) => break,
            }
        }
        if close_at_end { io.close(); } else {
            // stay open but silent forever (the simulation ends by its own bound)
            loop { if io.recv().await.is_none() { return; } }
        }
    }))
}

#[derive(Clone, Debug)]
pub struct LeecherCfg {
    pub id: [u8; 20],
    pub incoming: bool,
    pub hs: Hs,
    /// bitfield to advertise
    pub have: Vec<bool>,
    /// requests to send once unchoked: generated lazily from what the client advertised
    pub max_requests: u64,
    /// fuzz (index, begin, length) instead of asking sensibly: per mille
    pub fuzz: u64,
    pub idle_close_ms: u64,
    /// also send requests while choked (per mille of requests)
    pub request_while_choked: u64,
    pub interested_toggle: u64,
    pub pipeline: usize,
}

pub fn fuzz_u32(r: &mut Rng, piece_len: u32) -> u32 {
    match r.below(12) {
        0 => 0,
        1 => 1,
        2 => 16383,
        3 => 16384,
        4 => 16385,
        5 => piece_len.wrapping_sub(1),
        6 => piece_len,
        7 => piece_len.wrapping_add(1),
        8 => 1 << 31,
        9 => u32::MAX,
        10 => u32::MAX - r.below(3) as u32,
        _ => r.next() as u32 % (piece_len.max(1) * 2),
    }
}

/// A downloader: handshakes, declares interest, waits for Unchoke, requests blocks of pieces the
/// client advertised (sensible or fuzzed), and logs every answer.
pub fn leecher(cfg: LeecherCfg) -> Behaviour {
    Box::new(move |mut io| Box::pin(async move {
        let t = io.torrent.clone();
        if cfg.incoming {
            if let Some(h) = handshake_msg(&io, &cfg.hs, &cfg.id) { if !io.send(&h).await { return; } }
        }
        match io.recv_within(400_000).await { Ok(Some(Msg::Handshake { .. })) => (), _ => { io.close(); return; } }
        if !cfg.incoming {
            if let Some(h) = handshake_msg(&io, &cfg.hs, &cfg.id) { if !io.send(&h).await { return; } }
        }
        if !io.send(&Msg::Bitfield(bitfield_bytes(&cfg.have))).await { return; }
        if !io.send(&Msg::Interested).await { return; }
        let mut client_has = vec![false; t.n()];
        let mut unchoked = false;
        let mut sent: u64 = 0;
        let mut last = io.log.now_ms();
        let mut outstanding: usize = 0;
        loop {
            // send requests when allowed (or, rarely, although choked)
            while sent < cfg.max_requests && outstanding < cfg.pipeline {
                let allowed = unchoked || io.rng.below(1000) < cfg.request_while_choked;
                if !allowed { break; }
                let owned: Vec<usize> = (0..t.n()).filter(|i| client_has[*i]).collect();
                let fuzz = io.rng.below(1000) < cfg.fuzz;
                if owned.is_empty() && cfg.fuzz == 0 { break; }
                let (i, b, l) = if fuzz || owned.is_empty() {
                    let pl = t.piece_len as u32;
                    let i = match io.rng.below(6) { 0 => t.n() as u32, 1 => u32::MAX, 2 => t.n() as u32 - 1, _ => io.rng.below(t.n() as u64 + 1) as u32 };
                    (i, fuzz_u32(&mut io.rng, pl), fuzz_u32(&mut io.rng, pl))
                } else {
                    let i = *io.rng.pick(&owned);
                    let tl = crate::wire::tiling(t.piece_len_of(i));
                    let (b, l) = *io.rng.pick(&tl);
                    (i as u32, b, l)
                };
                if !io.send(&Msg::Request(i, b, l)).await { return; }
                sent += 1;
                outstanding += 1;
                if io.rng.below(1000) < cfg.interested_toggle {
                    let m = if io.rng.chance(1, 2) { Msg::NotInterested } else { Msg::Interested };
                    if !io.send(&m).await { return; }
                    if matches!(m, Msg::NotInterested) { let _ = io.send(&Msg::Interested).await; }
                }
            }
            let now = io.log.now_ms();
            if now >= last + cfg.idle_close_ms { io.close(); return; }
            match io.recv_within((last + cfg.idle_close_ms - now).min(2_000)).await {
                Err(()) => { outstanding = 0; continue; } // unanswered requests: move on
                Ok(None) => return,
                Ok(Some(m)) => {
                    match m {
                        Msg::Unchoke => { unchoked = true; last = io.log.now_ms(); }
                        Msg::Choke => { unchoked = false; outstanding = 0; }
                        Msg::Bitfield(b) => { client_has = crate::wire::bitfield_bits(&b, t.n()); }
                        Msg::Have(i) => { if (i as usize) < t.n() { client_has[i as usize] = true; } }
                        Msg::Piece(..) => { outstanding = outstanding.saturating_sub(1); last = io.log.now_ms(); }
                        _ => (),
                    }
                }
            }
            if sent >= cfg.max_requests && outstanding == 0 { io.close(); return; }
        }
    }))
}
