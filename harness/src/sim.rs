//! Layer A — deterministic in-process simulation: the real `Session` (through the hook-side
//! mirror of its event loop) and real `PeerHandler` tasks on a current-thread tokio runtime with a
//! paused clock, in-memory sockets, a scripted tracker and scripted peers that speak through the
//! harness' own BEP3 codec. Everything observable is appended to one totally ordered log.

use crate::torrent::Torrent;
use crate::util::{panics, sha1, Rng};
use crate::wire::{take_msg, Msg, StreamParser, Take, PROTO};
use rdest::verif::{self as hooks, Dial, Snapshot, VerifCtl, VerifEvent};
use rdest::Session;
use std::cell::RefCell;
use std::collections::{BTreeMap, HashMap};
use std::future::Future;
use std::path::{Path, PathBuf};
use std::pin::Pin;
use std::rc::Rc;
use tokio::io::{AsyncReadExt, AsyncWriteExt, DuplexStream, ReadHalf, WriteHalf};
use tokio::sync::mpsc;
use tokio::time::{Duration, Instant};

pub mod peers;
pub mod c19b;

pub const OWN_ID: [u8; 20] = *b"-RD0001-verifclient0";

/// State of the piece files in the client's directory at one moment.
#[derive(Debug, Clone, Default, PartialEq)]
pub struct DiskSnap {
    /// indices whose `<HASH>.piece` exists with exactly the right bytes
    pub valid: Vec<usize>,
    /// `*.piece` files that are not a valid piece of the torrent: (name, len)
    pub invalid: Vec<(String, u64)>,
}

#[derive(Debug, Clone)]
pub enum EvKind {
    /// the client is about to write this message on `addr`
    Send { msg: Msg, len: usize },
    /// the client's decoder waits for more bytes while retaining `buffered`
    RecvWait { buffered: usize },
    /// the manager handled an event; `after` = its state now
    Mgr { kind: &'static str, arg: Option<usize>, text: String, after: Rc<Snapshot> },
    /// a scripted peer wrote `msg` (or raw bytes) towards the client
    PeerSent { msg: Option<Msg>, raw_len: usize },
    /// a scripted peer received a complete message from the client
    PeerGot { msg: Msg },
    /// the peer saw the client close the connection / closed it itself
    PeerSawClose,
    PeerClosed,
    /// disk state taken synchronously when the preceding event happened
    Disk { snap: DiskSnap },
    /// free-form note from a persona or the driver
    Note { text: String },
}

#[derive(Debug, Clone)]
pub struct Ev {
    pub seq: u64,
    pub ms: u64,
    pub addr: String,
    /// connection instance of `addr` this event belongs to (0 = none)
    pub conn: u32,
    pub kind: EvKind,
}

pub struct LogInner {
    pub t0: Instant,
    pub events: Vec<Ev>,
    pub conn_of: HashMap<String, u32>,
    pub next_conn: u32,
    pub dir: PathBuf,
    pub torrent: Rc<Torrent>,
    disk_cache: HashMap<String, (u64, std::time::SystemTime, bool)>,
    /// which events trigger a synchronous disk scan
    pub disk_on: fn(&EvKind) -> bool,
    pub extractor_done: bool,
    pub extractor_text: Option<String>,
    pub mgr_events: u64,
}

#[derive(Clone)]
pub struct Log(pub Rc<RefCell<LogInner>>);

impl Log {
    pub fn now_ms(&self) -> u64 {
        let l = self.0.borrow();
        Instant::now().duration_since(l.t0).as_millis() as u64
    }

    pub fn push(&self, addr: &str, kind: EvKind) {
        let seq = hooks::next_seq();
        self.push_seq(seq, addr, kind);
    }

    fn push_seq(&self, seq: u64, addr: &str, kind: EvKind) {
        let mut l = self.0.borrow_mut();
        let ms = Instant::now().duration_since(l.t0).as_millis() as u64;
        let conn = l.conn_of.get(addr).copied().unwrap_or(0);
        let want_disk = (l.disk_on)(&kind);
        if let EvKind::Mgr { kind: k, text, .. } = &kind {
            l.mgr_events += 1;
            if *k == "ExtractorDone" || *k == "ExtractorFail" {
                l.extractor_done = true;
                l.extractor_text = Some(format!("{} {}", k, text));
            }
        }
        if l.events.len() > 3_000_000 {
            // a zero-virtual-time livelock: nothing in this process can make progress any more
            eprintln!("EVENT-CAP: more than 3000000 events in one scenario (livelock without time passing); last: {:?}", kind);
            std::process::exit(86);
        }
        l.events.push(Ev { seq, ms, addr: addr.to_string(), conn, kind });
        if want_disk {
            let snap = scan_disk(&mut l);
            let seq = hooks::next_seq();
            l.events.push(Ev { seq, ms, addr: addr.to_string(), conn, kind: EvKind::Disk { snap } });
        }
    }

    pub fn note(&self, addr: &str, text: impl Into<String>) {
        self.push(addr, EvKind::Note { text: text.into() });
    }

    pub fn new_conn(&self, addr: &str) -> u32 {
        let mut l = self.0.borrow_mut();
        l.next_conn += 1;
        let c = l.next_conn;
        l.conn_of.insert(addr.to_string(), c);
        c
    }

    pub fn disk_now(&self) -> DiskSnap {
        scan_disk(&mut self.0.borrow_mut())
    }
}

/// Scan `*.piece` files of the client's directory. A file that looks invalid is re-read until its
/// content is stable (a concurrent `fs::write` on the blocking pool may be in flight): only a
/// stable mismatch is reported.
fn scan_disk(l: &mut LogInner) -> DiskSnap {
    let mut snap = DiskSnap::default();
    // where under its start directory the client keeps them is its own business: walk the tree
    let mut entries = vec![];
    let mut stack = vec![l.dir.clone()];
    while let Some(d) = stack.pop() {
        let rd = match std::fs::read_dir(&d) { Ok(r) => r, Err(_) => continue };
        for e in rd.flatten() {
            let name = e.file_name().to_string_lossy().to_string();
            if name.ends_with(".piece") { entries.push(e); }
            else if e.file_type().map(|t| t.is_dir()).unwrap_or(false) && stack.len() < 64 { stack.push(e.path()); }
        }
    }
    for e in entries {
        let name = e.file_name().to_string_lossy().to_string();
        let md = match e.metadata() { Ok(m) => m, Err(_) => continue };
        if md.is_dir() { continue; } // an obstacle put there by the harness (disk fault injection)
        let key = (md.len(), md.modified().unwrap_or(std::time::UNIX_EPOCH));
        let mut idx = l.torrent.index_of_hash_name(&name);
        if let Some((len, mt, ok)) = l.disk_cache.get(&name) {
            if *len == key.0 && *mt == key.1 && *ok {
                if let Some(i) = idx { snap.valid.push(i); continue; }
            }
        }
        let mut ok = false;
        let mut last: Option<Vec<u8>> = None;
        for attempt in 0..40 {
            let data = std::fs::read(e.path()).unwrap_or_default();
            if idx.is_none() {
                // a name this harness does not know: identify the piece by its content
                let h = sha1(&data);
                idx = l.torrent.hashes.iter().position(|x| *x == h);
            }
            ok = match idx { Some(i) => sha1(&data) == l.torrent.hashes[i] && data == l.torrent.piece(i), None => false };
            if ok { break; }
            if attempt >= 3 && last.as_ref() == Some(&data) { break; } // stable and wrong
            last = Some(data);
            std::thread::sleep(std::time::Duration::from_millis(2));
        }
        if ok {
            let md2 = e.metadata().ok();
            if let Some(m2) = md2 { l.disk_cache.insert(name.clone(), (m2.len(), m2.modified().unwrap_or(std::time::UNIX_EPOCH), true)); }
            snap.valid.push(idx.unwrap());
        } else if e.path().exists() {
            snap.invalid.push((name, md.len()));
        } // else: gone meanwhile (a temporary file that was renamed): nothing is stored under that name
    }
    snap.valid.sort();
    snap
}

/// I/O handle of one scripted peer connection.
pub struct PeerIo {
    pub addr: String,
    pub conn: u32,
    pub log: Log,
    rd: ReadHalf<DuplexStream>,
    wr: Option<WriteHalf<DuplexStream>>,
    parser: StreamParser,
    pending: std::collections::VecDeque<Msg>,
    pub rng: Rng,
    pub torrent: Rc<Torrent>,
    /// how outgoing messages are cut into writes: 0 = one write per message
    pub chunk: usize,
    pub eof: bool,
}

impl PeerIo {
    pub async fn send(&mut self, m: &Msg) -> bool {
        let bytes = m.encode();
        self.log.push(&self.addr, EvKind::PeerSent { msg: Some(m.clone()), raw_len: bytes.len() });
        self.write(&bytes).await
    }

    pub async fn send_raw(&mut self, bytes: &[u8]) -> bool {
        self.log.push(&self.addr, EvKind::PeerSent { msg: None, raw_len: bytes.len() });
        self.write(bytes).await
    }

    async fn write(&mut self, bytes: &[u8]) -> bool {
        let chunk = self.chunk;
        let wr = match self.wr.as_mut() { Some(w) => w, None => return false };
        if chunk == 0 {
            return wr.write_all(bytes).await.is_ok();
        }
        for c in bytes.chunks(chunk) {
            if wr.write_all(c).await.is_err() { return false; }
            tokio::task::yield_now().await;
        }
        true
    }

    /// Next complete message written by the client; None when the client closed.
    pub async fn recv(&mut self) -> Option<Msg> {
        loop {
            if let Some(m) = self.pending.pop_front() {
                self.log.push(&self.addr, EvKind::PeerGot { msg: m.clone() });
                return Some(m);
            }
            if self.eof { return None; }
            let mut buf = [0u8; 16384];
            match self.rd.read(&mut buf).await {
                Ok(0) | Err(_) => {
                    self.eof = true;
                    self.log.push(&self.addr, EvKind::PeerSawClose);
                    return None;
                }
                Ok(n) => {
                    let msgs = self.parser.push(&buf[..n]);
                    if let Some(b) = &self.parser.bad {
                        self.log.note(&self.addr, format!("client wrote malformed data: {}", b));
                    }
                    self.pending.extend(msgs);
                }
            }
        }
    }

    /// recv with a virtual-time limit: Err(()) on timeout.
    pub async fn recv_within(&mut self, ms: u64) -> Result<Option<Msg>, ()> {
        match tokio::time::timeout(Duration::from_millis(ms), self.recv()).await {
            Ok(m) => Ok(m),
            Err(_) => Err(()),
        }
    }

    pub fn close(&mut self) {
        if self.wr.take().is_some() {
            self.log.push(&self.addr, EvKind::PeerClosed);
        }
    }

    /// Half-close our writing side is not expressible with duplex halves other than by dropping;
    /// dropping `wr` makes the client read EOF.
    pub fn is_open(&self) -> bool {
        self.wr.is_some()
    }
}

pub type Behaviour = Box<dyn FnOnce(PeerIo) -> Pin<Box<dyn Future<Output = ()>>>>;

pub enum Entry {
    /// listed by the tracker (from announce number `from_announce` on) and dialled by the client
    Dialled { from_announce: u64 },
    /// connects to the client at this virtual time
    Incoming { at_ms: u64 },
}

pub struct PeerSpec {
    pub addr: String,
    /// the id the tracker announces for it (the persona may present another one)
    pub id: [u8; 20],
    pub entry: Entry,
    /// creates the behaviour for the k-th connection of this peer (re-dials get a fresh one)
    pub make: Box<dyn FnMut(u32) -> Option<Behaviour>>,
    pub chunk: usize,
    pub pipe: usize,
}

pub enum TrackerStep {
    /// transport/HTTP error text
    Fail(String),
    /// raw body (garbage or failure reason)
    Body(Vec<u8>),
    /// a good reply listing the currently listable peers
    Good,
}

pub struct SimCfg {
    pub torrent: Rc<Torrent>,
    pub peers: Vec<PeerSpec>,
    /// outcome of announce #n; past the end: Good
    pub tracker: Vec<TrackerStep>,
    pub failpoints: Option<u64>,
    pub max_virtual_ms: u64,
    /// stop as soon as the extractor reported
    pub stop_on_extract: bool,
    /// keep running this long (virtual) after extraction before stopping
    pub linger_ms: u64,
    pub disk_on: fn(&EvKind) -> bool,
    pub seed: u64,
    /// run in the client's (fresh, empty) directory before the session starts (fault injection on disk)
    pub pre: Option<Box<dyn FnOnce(&Path)>>,
    /// closure-scripted tracker (overrides `tracker`): gets the announce number and the log
    pub tracker_fn: Option<Box<dyn FnMut(u64, &Log) -> TrackerStep>>,
    /// extra driver logic run inside the simulation (gets the ctl channel)
    pub driver: Option<Box<dyn FnOnce(Log, mpsc::Sender<VerifCtl>) -> Pin<Box<dyn Future<Output = ()>>>>>,
}

pub struct Outcome {
    pub events: Vec<Ev>,
    pub panics: Vec<String>,
    pub session_panicked: bool,
    pub session_alive_at_end: bool,
    pub final_snapshot: Option<Snapshot>,
    pub final_disk: DiskSnap,
    /// recursive listing of the client directory at the end: rel path -> bytes
    pub files: BTreeMap<PathBuf, Vec<u8>>,
    pub end_ms: u64,
    pub watchdog: bool,
    pub extractor: Option<String>,
    pub tracker_calls: u64,
}

pub fn disk_never(_: &EvKind) -> bool { false }

pub fn disk_on_ownership(k: &EvKind) -> bool {
    match k {
        EvKind::Send { msg, .. } => matches!(msg, Msg::Have(_) | Msg::Bitfield(_) | Msg::Piece(..)),
        EvKind::Mgr { kind, .. } => matches!(*kind, "PieceDone" | "KillReq" | "Init" | "ExtractorDone"),
        _ => false,
    }
}

fn parse_client_send(bytes: &[u8]) -> Msg {
    let hs = bytes.len() == 68 && bytes[0] == 19 && &bytes[1..20] == PROTO;
    match take_msg(bytes, hs) {
        Take::Msg(m, n) if n == bytes.len() => m,
        _ => Msg::Unknown(255, bytes.to_vec()),
    }
}

pub fn tracker_body(peers: &[(String, [u8; 20])]) -> Vec<u8> {
    let mut b = b"d8:intervali1800e5:peersl".to_vec();
    for (addr, id) in peers {
        let (ip, port) = addr.rsplit_once(':').unwrap();
        b.extend_from_slice(format!("d2:ip{}:{}7:peer id20:", ip.len(), ip).as_bytes());
        b.extend_from_slice(id);
        b.extend_from_slice(format!("4:porti{}ee", port).as_bytes());
    }
    b.extend_from_slice(b"ee");
    b
}

/// Run one scenario in a fresh sub-directory of `scratch` and return everything observed.
pub fn run_sim(cfg: SimCfg, scratch: &Path, wall_limit_s: u64) -> Outcome {
    let dir = scratch.join("cwd");
    let _ = std::fs::remove_dir_all(&dir);
    std::fs::create_dir_all(&dir).unwrap();
    std::env::set_current_dir(&dir).unwrap();
    let mut cfg = cfg;
    if let Some(pre) = cfg.pre.take() { pre(&dir); }
    let _ = panics::take();
    let rt = tokio::runtime::Builder::new_current_thread().enable_time().start_paused(true).build().unwrap();
    let local = tokio::task::LocalSet::new();
    let wall0 = std::time::Instant::now();
    // an interpreter is 10^3..10^4 times slower: the wall-clock watchdog (never a verdict) scales
    let wall_limit_s = if cfg!(miri) { wall_limit_s * 40 } else { wall_limit_s };
    let torrent = cfg.torrent.clone();
    let metainfo = torrent.metainfo();
    let max_ms = cfg.max_virtual_ms;
    let stop_on_extract = cfg.stop_on_extract;
    let linger = cfg.linger_ms;
    let mut out = local.block_on(&rt, async move {
        let log = Log(Rc::new(RefCell::new(LogInner {
            t0: Instant::now(),
            events: Vec::with_capacity(4096),
            conn_of: HashMap::new(),
            next_conn: 0,
            dir: dir.clone(),
            torrent: torrent.clone(),
            disk_cache: HashMap::new(),
            disk_on: cfg.disk_on,
            extractor_done: false,
            extractor_text: None,
            mgr_events: 0,
        })));
        // --- hooks ---------------------------------------------------------------------------
        let l2 = log.clone();
        hooks::set_sink(Some(Box::new(move |ev| match ev {
            VerifEvent::Send { seq, addr, bytes } => {
                let msg = parse_client_send(&bytes);
                l2.push_seq(seq, &addr, EvKind::Send { msg, len: bytes.len() })
            }
            VerifEvent::RecvWait { seq, addr, buffered } => l2.push_seq(seq, &addr, EvKind::RecvWait { buffered }),
            VerifEvent::Manager { seq, kind, addr, arg, text, after } => {
                l2.push_seq(seq, &addr, EvKind::Mgr { kind, arg, text, after: Rc::new(after) })
            }
        })));
        if let Some(fs) = cfg.failpoints {
            let mut fr = Rng::new(fs ^ 0xFA11);
            hooks::set_failpoints(Some(Box::new(move |_name| match fr.below(8) {
                0 => Some(0),
                1 => Some(1 + fr.below(5)),
                2 => Some(10 + fr.below(200)),
                _ => None,
            })));
        } else {
            hooks::set_failpoints(None);
        }
        // peers table shared by dialer, tracker script and incoming driver
        struct Slot { spec: PeerSpec, conns: u32 }
        let slots: Rc<RefCell<Vec<Slot>>> = Rc::new(RefCell::new(cfg.peers.into_iter().map(|spec| Slot { spec, conns: 0 }).collect()));
        let (spawn_tx, mut spawn_rx) = mpsc::unbounded_channel::<Pin<Box<dyn Future<Output = ()>>>>();
        tokio::task::spawn_local(async move {
            while let Some(fut) = spawn_rx.recv().await {
                tokio::task::spawn_local(fut);
            }
        });
        let spawn_peer = {
            let log = log.clone();
            let torrent = torrent.clone();
            let seed = cfg.seed;
            move |slot: &mut Slot| -> Option<DuplexStream> {
                slot.conns += 1;
                let beh = (slot.spec.make)(slot.conns)?;
                let (client_end, peer_end) = tokio::io::duplex(slot.spec.pipe.max(1024));
                let conn = log.new_conn(&slot.spec.addr);
                let (rd, wr) = tokio::io::split(peer_end);
                let io = PeerIo {
                    addr: slot.spec.addr.clone(),
                    conn,
                    log: log.clone(),
                    rd,
                    wr: Some(wr),
                    parser: StreamParser::new(true),
                    pending: Default::default(),
                    rng: Rng::new(seed ^ crate::util::hash64(&(&slot.spec.addr, slot.conns))),
                    torrent: torrent.clone(),
                    chunk: slot.spec.chunk,
                    eof: false,
                };
                // the dialer runs inside a plain `tokio::spawn` task: hand the (!Send) persona over
                // to the LocalSet-owned spawner task
                let _ = spawn_tx.send(beh(io));
                Some(client_end)
            }
        };
        {
            let slots = slots.clone();
            let spawn_peer = spawn_peer.clone();
            hooks::set_dialer(Some(Box::new(move |addr: &str| {
                let mut s = slots.borrow_mut();
                match s.iter_mut().find(|x| x.spec.addr == addr && matches!(x.spec.entry, Entry::Dialled { .. })) {
                    Some(slot) => match spawn_peer(slot) {
                        Some(mem) => Some(Dial::Mem(mem)),
                        None => Some(Dial::Refused),
                    },
                    None => Some(Dial::Refused),
                }
            })));
        }
        let calls = Rc::new(std::cell::Cell::new(0u64));
        {
            let slots = slots.clone();
            let mut script = cfg.tracker;
            let mut script_fn = cfg.tracker_fn;
            let calls = calls.clone();
            let log = log.clone();
            hooks::script_tracker(Some(Box::new(move |n: u64| {
                calls.set(n + 1);
                let step = match script_fn.as_mut() {
                    Some(f) => f(n, &log),
                    None => if (n as usize) < script.len() { std::mem::replace(&mut script[n as usize], TrackerStep::Good) } else { TrackerStep::Good },
                };
                log.note("", format!("announce #{} -> {}", n, match &step { TrackerStep::Fail(e) => format!("fail: {}", e), TrackerStep::Body(b) => format!("body: {}", crate::util::show(b)), TrackerStep::Good => "good reply".to_string() }));
                match step {
                    TrackerStep::Fail(e) => Err(e),
                    TrackerStep::Body(b) => Ok(b),
                    TrackerStep::Good => {
                        let s = slots.borrow();
                        let list: Vec<(String, [u8; 20])> = s.iter().filter(|x| matches!(x.spec.entry, Entry::Dialled { from_announce } if from_announce <= n)).map(|x| (x.spec.addr.clone(), x.spec.id)).collect();
                        Ok(tracker_body(&list))
                    }
                }
            })));
        }
        // --- session -------------------------------------------------------------------------
        let (ctl_tx, ctl_rx) = mpsc::channel::<VerifCtl>(64);
        let mut session = Session::new(metainfo, OWN_ID);
        let sess = tokio::task::spawn_local(async move { session.verif_event_loop(ctl_rx, true).await });
        // incoming connections
        {
            let incoming: Vec<(usize, u64)> = slots.borrow().iter().enumerate().filter_map(|(i, s)| match s.spec.entry { Entry::Incoming { at_ms } => Some((i, at_ms)), _ => None }).collect();
            for (i, at_ms) in incoming {
                let slots = slots.clone();
                let spawn_peer = spawn_peer.clone();
                let ctl = ctl_tx.clone();
                tokio::task::spawn_local(async move {
                    tokio::time::sleep(Duration::from_millis(at_ms)).await;
                    let (addr, mem) = {
                        let mut s = slots.borrow_mut();
                        let slot = &mut s[i];
                        (slot.spec.addr.clone(), spawn_peer(slot))
                    };
                    if let Some(mem) = mem {
                        let _ = ctl.send(VerifCtl::Incoming { addr, mem }).await;
                    }
                });
            }
        }
        let extra = cfg.driver.map(|d| tokio::task::spawn_local(d(log.clone(), ctl_tx.clone())));
        // --- driver: wait for the stop condition (virtual time; wall clock only as watchdog) ---
        let mut watchdog = false;
        let mut done_at: Option<u64> = None;
        let mut session_finished = false;
        loop {
            tokio::time::sleep(Duration::from_millis(50)).await;
            let now = log.now_ms();
            if sess.is_finished() { session_finished = true; break; }
            if log.0.borrow().extractor_done && done_at.is_none() { done_at = Some(now); }
            if stop_on_extract { if let Some(d) = done_at { if now >= d + linger { break; } } }
            if let Some(h) = &extra { if h.is_finished() && !stop_on_extract { break; } }
            if now >= max_ms { break; }
            if wall0.elapsed().as_secs() >= wall_limit_s { watchdog = true; break; }
        }
        // panics are attributed only up to here: once the harness stops the manager (which the real
        // program never does) connection tasks may fail to report to it
        let panics_seen = panics::take();
        // --- is the manager still alive and answering? ------------------------------------------
        let mut final_snapshot = None;
        let mut alive = false;
        if !session_finished {
            let (tx, rx) = tokio::sync::oneshot::channel();
            if ctl_tx.send(VerifCtl::Snapshot(tx)).await.is_ok() {
                if let Ok(Ok(s)) = tokio::time::timeout(Duration::from_secs(5), rx).await {
                    final_snapshot = Some(s);
                    alive = true;
                }
            }
            let _ = ctl_tx.send(VerifCtl::Stop).await;
        }
        let joined = tokio::time::timeout(Duration::from_secs(5), sess).await;
        let session_panicked = matches!(&joined, Ok(Err(e)) if e.is_panic());
        let end_ms = log.now_ms();
        hooks::set_sink(None);
        hooks::set_dialer(None);
        hooks::script_tracker(None);
        hooks::set_failpoints(None);
        if let Some(h) = extra { h.abort(); }
        let final_disk = log.disk_now();
        let mut inner = log.0.borrow_mut();
        Outcome {
            events: std::mem::take(&mut inner.events),
            panics: panics_seen,
            session_panicked,
            session_alive_at_end: alive,
            final_snapshot,
            final_disk,
            files: BTreeMap::new(),
            end_ms,
            watchdog,
            extractor: inner.extractor_text.clone(),
            tracker_calls: calls.get(),
        }
    });
    drop(local);
    rt.shutdown_timeout(std::time::Duration::from_secs(5));
    let _ = panics::take();
    // final listing of everything that is not a piece file
    for (p, (is_dir, _, _)) in crate::checks::c03::listing(&scratch.join("cwd")) {
        if !is_dir && p.extension().map(|e| e != "piece").unwrap_or(true) {
            out.files.insert(p.clone(), std::fs::read(scratch.join("cwd").join(&p)).unwrap_or_default());
        }
    }
    let _ = std::env::set_current_dir("/");
    let _ = std::fs::remove_dir_all(scratch.join("cwd"));
    out
}

// ------------------------------------------------------------------------------------------------
// helpers over the log

impl Outcome {
    pub fn client_msgs<'a>(&'a self, addr: &'a str, conn: u32) -> impl Iterator<Item = (&'a Ev, &'a Msg)> + 'a {
        self.events.iter().filter_map(move |e| match &e.kind {
            EvKind::Send { msg, .. } if e.addr == addr && (conn == 0 || e.conn == conn) => Some((e, msg)),
            _ => None,
        })
    }

    pub fn mgr<'a>(&'a self) -> impl Iterator<Item = (&'a Ev, &'static str, &'a Rc<Snapshot>)> + 'a {
        self.events.iter().filter_map(|e| match &e.kind {
            EvKind::Mgr { kind, after, .. } => Some((e, *kind, after)),
            _ => None,
        })
    }

    pub fn conns(&self) -> Vec<(String, u32)> {
        let mut v: Vec<(String, u32)> = self.events.iter().filter(|e| e.conn != 0).map(|e| (e.addr.clone(), e.conn)).collect();
        v.sort();
        v.dedup();
        v
    }

    /// Compact textual trace for witnesses (last `n` events).
    pub fn trace(&self, n: usize) -> Vec<String> {
        let start = self.events.len().saturating_sub(n);
        self.events[start..].iter().map(fmt_ev).collect()
    }

    pub fn trace_for(&self, addr: &str, n: usize) -> Vec<String> {
        let v: Vec<String> = self.events.iter().filter(|e| e.addr == addr || matches!(e.kind, EvKind::Mgr { .. })).map(fmt_ev).collect();
        let start = v.len().saturating_sub(n);
        v[start..].to_vec()
    }
}

pub fn fmt_msg(m: &Msg) -> String {
    match m {
        Msg::Piece(i, b, d) => format!("Piece({},{},len={})", i, b, d.len()),
        Msg::Bitfield(b) => format!("Bitfield({})", crate::util::hex(b)),
        Msg::Handshake { info_hash, peer_id, .. } => format!("Handshake(ih={}.., id={})", crate::util::hex(&info_hash[..4]), String::from_utf8_lossy(peer_id)),
        Msg::Unknown(id, b) => format!("Unknown(id={},len={})", id, b.len()),
        other => format!("{:?}", other),
    }
}

pub fn fmt_status(s: &[rdest::verif::Status]) -> String {
    s.iter().map(|x| match x { rdest::verif::Status::Missing => "M".to_string(), rdest::verif::Status::Have => "H".to_string(), rdest::verif::Status::Reserved(k) => format!("R{}", k) }).collect::<Vec<_>>().join("")
}

pub fn fmt_ev(e: &Ev) -> String {
    let body = match &e.kind {
        EvKind::Send { msg, .. } => format!("client->{} {}", e.addr, fmt_msg(msg)),
        EvKind::RecvWait { buffered } => format!("client waits on {} (buffered {})", e.addr, buffered),
        EvKind::Mgr { kind, arg, text, after } => format!(
            "MGR {} {} {:?} {} | status {} | peers {}",
            kind, e.addr, arg, text, fmt_status(&after.statuses),
            after.peers.iter().map(|p| format!("{}[idx={:?}{}{}{}{}]", p.addr, p.piece_index, if p.choked { " choked" } else { " unchoked" }, if p.am_interested { " amI" } else { "" }, if p.am_choked { "" } else { " amU" }, if p.interested { " I" } else { "" })).collect::<Vec<_>>().join(" ")
        ),
        EvKind::PeerSent { msg: Some(m), .. } => format!("{}->client {}", e.addr, fmt_msg(m)),
        EvKind::PeerSent { msg: None, raw_len } => format!("{}->client raw {} bytes", e.addr, raw_len),
        EvKind::PeerGot { msg } => format!("{} got {}", e.addr, fmt_msg(msg)),
        EvKind::PeerSawClose => format!("{} saw the client close", e.addr),
        EvKind::PeerClosed => format!("{} closed", e.addr),
        EvKind::Disk { snap } => format!("DISK valid={:?} invalid={:?}", snap.valid, snap.invalid),
        EvKind::Note { text } => format!("note {} {}", e.addr, text),
    };
    format!("#{} t={}ms c{} {}", e.seq, e.ms, e.conn, body)
}
