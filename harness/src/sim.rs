//! sim core (filled in below)
pub mod c19b {
    use crate::util::{Ctx, Report};
    pub fn run(_ctx: &Ctx, _rep: &mut Report) {}
}
