// sim core (filled in below)
