//! Independent BEP3 peer-wire codec owned by the harness (never calls rdest's message code).

pub const PROTO: &[u8; 19] = b"BitTorrent protocol";
pub const BLOCK: usize = 16384;

#[derive(Debug, Clone, PartialEq, Eq, Hash)]
pub enum Msg {
    Handshake {
        proto: Vec<u8>,
        reserved: [u8; 8],
        info_hash: [u8; 20],
        peer_id: [u8; 20],
    },
    KeepAlive,
    Choke,
    Unchoke,
    Interested,
    NotInterested,
    Have(u32),
    Bitfield(Vec<u8>),
    Request(u32, u32, u32),
    Piece(u32, u32, Vec<u8>),
    Cancel(u32, u32, u32),
    /// Unknown id with its body (after the id byte).
    Unknown(u8, Vec<u8>),
}

impl Msg {
    pub fn handshake(info_hash: &[u8; 20], peer_id: &[u8; 20]) -> Msg {
        Msg::Handshake {
            proto: PROTO.to_vec(),
            reserved: [0; 8],
            info_hash: *info_hash,
            peer_id: *peer_id,
        }
    }

    pub fn kind(&self) -> &'static str {
        match self {
            Msg::Handshake { .. } => "Handshake",
            Msg::KeepAlive => "KeepAlive",
            Msg::Choke => "Choke",
            Msg::Unchoke => "Unchoke",
            Msg::Interested => "Interested",
            Msg::NotInterested => "NotInterested",
            Msg::Have(_) => "Have",
            Msg::Bitfield(_) => "Bitfield",
            Msg::Request(..) => "Request",
            Msg::Piece(..) => "Piece",
            Msg::Cancel(..) => "Cancel",
            Msg::Unknown(..) => "Unknown",
        }
    }

    pub fn encode(&self) -> Vec<u8> {
        fn framed(id: u8, body: &[u8]) -> Vec<u8> {
            let mut v = ((1 + body.len()) as u32).to_be_bytes().to_vec();
            v.push(id);
            v.extend_from_slice(body);
            v
        }
        fn triple(a: u32, b: u32, c: u32) -> Vec<u8> {
            let mut v = a.to_be_bytes().to_vec();
            v.extend_from_slice(&b.to_be_bytes());
            v.extend_from_slice(&c.to_be_bytes());
            v
        }
        match self {
            Msg::Handshake {
                proto,
                reserved,
                info_hash,
                peer_id,
            } => {
                let mut v = vec![proto.len() as u8];
                v.extend_from_slice(proto);
                v.extend_from_slice(reserved);
                v.extend_from_slice(info_hash);
                v.extend_from_slice(peer_id);
                v
            }
            Msg::KeepAlive => vec![0, 0, 0, 0],
            Msg::Choke => framed(0, &[]),
            Msg::Unchoke => framed(1, &[]),
            Msg::Interested => framed(2, &[]),
            Msg::NotInterested => framed(3, &[]),
            Msg::Have(i) => framed(4, &i.to_be_bytes()),
            Msg::Bitfield(b) => framed(5, b),
            Msg::Request(i, b, l) => framed(6, &triple(*i, *b, *l)),
            Msg::Piece(i, b, d) => {
                let mut body = i.to_be_bytes().to_vec();
                body.extend_from_slice(&b.to_be_bytes());
                body.extend_from_slice(d);
                framed(7, &body)
            }
            Msg::Cancel(i, b, l) => framed(8, &triple(*i, *b, *l)),
            Msg::Unknown(id, body) => framed(*id, body),
        }
    }
}

pub fn bitfield_bytes(bits: &[bool]) -> Vec<u8> {
    let mut v = vec![0u8; (bits.len() + 7) / 8];
    for (i, b) in bits.iter().enumerate() {
        if *b {
            v[i / 8] |= 0x80 >> (i % 8);
        }
    }
    v
}

pub fn bitfield_bits(bytes: &[u8], n: usize) -> Vec<bool> {
    (0..n)
        .map(|i| i / 8 < bytes.len() && bytes[i / 8] & (0x80 >> (i % 8)) != 0)
        .collect()
}

fn be32(b: &[u8]) -> u32 {
    u32::from_be_bytes([b[0], b[1], b[2], b[3]])
}

/// Outcome of trying to take one message from the front of `buf`.
pub enum Take {
    Msg(Msg, usize),
    NeedMore,
    /// Malformed (fixed-size id with a wrong length, piece shorter than its header).
    Bad(String),
}

/// Parse what the *client* wrote (we trust nothing: used by wire oracles). `expect_handshake`
/// says whether the next bytes should be a 68-byte handshake.
pub fn take_msg(buf: &[u8], expect_handshake: bool) -> Take {
    if expect_handshake {
        if buf.is_empty() {
            return Take::NeedMore;
        }
        let pl = buf[0] as usize;
        let total = 1 + pl + 8 + 20 + 20;
        if buf.len() < total {
            return Take::NeedMore;
        }
        let proto = buf[1..1 + pl].to_vec();
        let mut reserved = [0u8; 8];
        reserved.copy_from_slice(&buf[1 + pl..9 + pl]);
        let mut info_hash = [0u8; 20];
        info_hash.copy_from_slice(&buf[9 + pl..29 + pl]);
        let mut peer_id = [0u8; 20];
        peer_id.copy_from_slice(&buf[29 + pl..49 + pl]);
        return Take::Msg(
            Msg::Handshake {
                proto,
                reserved,
                info_hash,
                peer_id,
            },
            total,
        );
    }
    if buf.len() < 4 {
        return Take::NeedMore;
    }
    let len = be32(buf) as usize;
    if len == 0 {
        return Take::Msg(Msg::KeepAlive, 4);
    }
    if buf.len() < 4 + len {
        return Take::NeedMore;
    }
    let id = buf[4];
    let body = &buf[5..4 + len];
    let fixed = |n: usize, m: Msg| -> Take {
        if body.len() == n {
            Take::Msg(m, 4 + len)
        } else {
            Take::Bad(format!("id {} with body length {}", id, body.len()))
        }
    };
    match id {
        0 => fixed(0, Msg::Choke),
        1 => fixed(0, Msg::Unchoke),
        2 => fixed(0, Msg::Interested),
        3 => fixed(0, Msg::NotInterested),
        4 => {
            if body.len() == 4 {
                Take::Msg(Msg::Have(be32(body)), 4 + len)
            } else {
                Take::Bad("have length".into())
            }
        }
        5 => Take::Msg(Msg::Bitfield(body.to_vec()), 4 + len),
        6 | 8 => {
            if body.len() == 12 {
                let (a, b, c) = (be32(body), be32(&body[4..]), be32(&body[8..]));
                Take::Msg(
                    if id == 6 {
                        Msg::Request(a, b, c)
                    } else {
                        Msg::Cancel(a, b, c)
                    },
                    4 + len,
                )
            } else {
                Take::Bad("request/cancel length".into())
            }
        }
        7 => {
            if body.len() >= 8 {
                Take::Msg(
                    Msg::Piece(be32(body), be32(&body[4..]), body[8..].to_vec()),
                    4 + len,
                )
            } else {
                Take::Bad("piece length".into())
            }
        }
        _ => Take::Msg(Msg::Unknown(id, body.to_vec()), 4 + len),
    }
}

/// Incremental parser over a growing byte stream written by the client.
pub struct StreamParser {
    pub buf: Vec<u8>,
    pub expect_handshake: bool,
    pub bad: Option<String>,
}

impl StreamParser {
    pub fn new(expect_handshake: bool) -> StreamParser {
        StreamParser {
            buf: vec![],
            expect_handshake,
            bad: None,
        }
    }

    pub fn push(&mut self, bytes: &[u8]) -> Vec<Msg> {
        self.buf.extend_from_slice(bytes);
        let mut out = vec![];
        loop {
            if self.bad.is_some() {
                return out;
            }
            match take_msg(&self.buf, self.expect_handshake) {
                Take::Msg(m, n) => {
                    self.buf.drain(..n);
                    self.expect_handshake = false;
                    out.push(m);
                }
                Take::NeedMore => return out,
                Take::Bad(e) => {
                    self.bad = Some(e);
                    return out;
                }
            }
        }
    }
}

/// Canonical block tiling of a piece of length `l`.
pub fn tiling(l: usize) -> Vec<(u32, u32)> {
    let mut v = vec![];
    let mut b = 0;
    while b < l {
        let n = (l - b).min(BLOCK);
        v.push((b as u32, n as u32));
        b += n;
    }
    v
}
