//! vh — verification harness worker for rdest. One invocation = one shard of one check.
//! Orchestrated by /verif/run.py (build, fan-out, merge, evidence, verdict).

mod benc;
mod checks;
mod torrent;
mod util;
mod wire;
mod sim;

use std::path::PathBuf;
use util::{Ctx, Tier};

fn usage() -> ! {
    eprintln!("usage: vh run <Cxx> --tier quick|thorough --seed N --shard i/n --out DIR [--scale F] [--parts a,b]");
    eprintln!("       vh merge-hashes <file>...");
    eprintln!("       vh probe <name> [args]");
    std::process::exit(2)
}

fn main() {
    let args: Vec<String> = std::env::args().collect();
    if args.len() < 2 {
        usage();
    }
    match args[1].as_str() {
        "run" => run(&args[2..]),
        "merge-hashes" => merge_hashes(&args[2..]),
        "probe" => checks::probe(&args[2..]),
        _ => usage(),
    }
}

fn run(args: &[String]) {
    if args.is_empty() {
        usage();
    }
    let id = args[0].clone();
    let mut tier = Tier::Quick;
    let mut seed = 1u64;
    let mut shard = 0usize;
    let mut nshards = 1usize;
    let mut out = PathBuf::from(".");
    let mut scale = 1.0f64;
    let mut parts = vec![];
    let mut only_seed = None;
    let mut repeat = 20u64;
    let mut i = 1;
    while i < args.len() {
        let v = args.get(i + 1).cloned().unwrap_or_default();
        match args[i].as_str() {
            "--tier" => tier = if v == "thorough" { Tier::Thorough } else { Tier::Quick },
            "--seed" => seed = v.parse().unwrap_or(1),
            "--shard" => {
                let (a, b) = v.split_once('/').unwrap_or(("0", "1"));
                shard = a.parse().unwrap();
                nshards = b.parse().unwrap();
            }
            "--out" => out = PathBuf::from(&v),
            "--scale" => scale = v.parse().unwrap_or(1.0),
            "--scenario-seed" => only_seed = v.parse().ok(),
            "--repeat" => repeat = v.parse().unwrap_or(20),
            "--parts" => parts = v.split(',').filter(|s| !s.is_empty()).map(|s| s.to_string()).collect(),
            _ => usage(),
        }
        i += 2;
    }
    std::fs::create_dir_all(&out).unwrap();
    let out = std::fs::canonicalize(&out).unwrap();
    let base = std::env::var("VERIF_SCRATCH").unwrap_or_else(|_| {
        if std::path::Path::new("/dev/shm").is_dir() { "/dev/shm".into() } else { std::env::temp_dir().to_string_lossy().to_string() }
    });
    let scratch = PathBuf::from(base).join(format!("vh-{}-{}-{}", id, std::process::id(), shard));
    let _ = std::fs::remove_dir_all(&scratch);
    std::fs::create_dir_all(&scratch).unwrap();
    util::panics::install();
    let ctx = Ctx { seed, shard, nshards, tier, scale, scratch: scratch.clone(), parts, only_seed, repeat };
    let report = checks::run(&id, &ctx);
    let _ = std::env::set_current_dir("/");
    let _ = std::fs::remove_dir_all(&scratch);
    report.write(&out, shard).unwrap();
}

fn merge_hashes(files: &[String]) {
    let mut all: Vec<u64> = vec![];
    for f in files {
        let b = std::fs::read(f).unwrap_or_default();
        for c in b.chunks_exact(8) {
            all.push(u64::from_le_bytes(c.try_into().unwrap()));
        }
    }
    all.sort_unstable();
    all.dedup();
    println!("{}", all.len());
}
