//! Shared plumbing: seeded RNG, hashing, the per-shard report written for run.py.

use serde_json::{json, Map, Value};
use std::collections::{BTreeMap, BTreeSet, HashSet};
use std::hash::{Hash, Hasher};
use std::path::{Path, PathBuf};

/// xoshiro256** seeded through splitmix64 — deterministic, independent of any crate version.
#[derive(Clone)]
pub struct Rng {
    s: [u64; 4],
}

fn splitmix(x: &mut u64) -> u64 {
    *x = x.wrapping_add(0x9E37_79B9_7F4A_7C15);
    let mut z = *x;
    z = (z ^ (z >> 30)).wrapping_mul(0xBF58_476D_1CE4_E5B9);
    z = (z ^ (z >> 27)).wrapping_mul(0x94D0_49BB_1331_11EB);
    z ^ (z >> 31)
}

impl Rng {
    pub fn new(seed: u64) -> Rng {
        let mut x = seed ^ 0xD1B5_4A32_D192_ED03;
        Rng {
            s: [
                splitmix(&mut x),
                splitmix(&mut x),
                splitmix(&mut x),
                splitmix(&mut x),
            ],
        }
    }

    /// Independent stream derived from this one and a label.
    pub fn fork(&mut self, label: u64) -> Rng {
        Rng::new(self.next() ^ label.wrapping_mul(0xA24B_AED4_963E_E407))
    }

    pub fn next(&mut self) -> u64 {
        let r = self.s[1].wrapping_mul(5).rotate_left(7).wrapping_mul(9);
        let t = self.s[1] << 17;
        self.s[2] ^= self.s[0];
        self.s[3] ^= self.s[1];
        self.s[1] ^= self.s[2];
        self.s[0] ^= self.s[3];
        self.s[2] ^= t;
        self.s[3] = self.s[3].rotate_left(45);
        r
    }

    /// Uniform in 0..n (n > 0).
    pub fn below(&mut self, n: u64) -> u64 {
        debug_assert!(n > 0);
        self.next() % n
    }

    pub fn range(&mut self, lo: u64, hi_incl: u64) -> u64 {
        lo + self.below(hi_incl - lo + 1)
    }

    pub fn usize(&mut self, n: usize) -> usize {
        self.below(n as u64) as usize
    }

    pub fn chance(&mut self, num: u64, den: u64) -> bool {
        self.below(den) < num
    }

    pub fn pick<'a, T>(&mut self, xs: &'a [T]) -> &'a T {
        &xs[self.usize(xs.len())]
    }

    pub fn bytes(&mut self, n: usize) -> Vec<u8> {
        let mut v = Vec::with_capacity(n);
        while v.len() < n {
            let x = self.next().to_le_bytes();
            let k = (n - v.len()).min(8);
            v.extend_from_slice(&x[..k]);
        }
        v
    }

    pub fn shuffle<T>(&mut self, xs: &mut [T]) {
        for i in (1..xs.len()).rev() {
            let j = self.usize(i + 1);
            xs.swap(i, j);
        }
    }
}

pub fn hash64<T: Hash + ?Sized>(x: &T) -> u64 {
    // SipHash with fixed keys (DefaultHasher::new() is deterministic).
    let mut h = std::collections::hash_map::DefaultHasher::new();
    x.hash(&mut h);
    h.finish()
}

pub fn sha1(b: &[u8]) -> [u8; 20] {
    let mut h = sha1_smol::Sha1::new();
    h.update(b);
    h.digest().bytes()
}

pub fn hex(b: &[u8]) -> String {
    b.iter().map(|x| format!("{:02x}", x)).collect()
}

pub fn hex_upper(b: &[u8]) -> String {
    b.iter().map(|x| format!("{:02X}", x)).collect()
}

/// Printable rendering of a byte string for samples/witnesses (lossless: non-printables as \xNN).
pub fn show(b: &[u8]) -> String {
    let mut s = String::new();
    for &c in b.iter().take(400) {
        if (0x20..0x7f).contains(&c) && c != b'\\' {
            s.push(c as char);
        } else {
            s.push_str(&format!("\\x{:02x}", c));
        }
    }
    if b.len() > 400 {
        s.push_str(&format!("...(+{} bytes)", b.len() - 400));
    }
    s
}

#[derive(Clone, Copy, PartialEq, Debug)]
pub enum Tier {
    Quick,
    Thorough,
}

#[derive(Clone)]
pub struct Ctx {
    pub seed: u64,
    pub shard: usize,
    pub nshards: usize,
    pub tier: Tier,
    /// Multiplier applied to every workload count (1.0 = the tier's nominal size).
    pub scale: f64,
    /// Scratch directory owned by this worker (exists, empty); removed by the worker on exit.
    pub scratch: PathBuf,
    /// Sub-selection of the check's parts (empty = all).
    pub parts: Vec<String>,
    /// Replay mode: run only the scenario generated from this seed, `repeat` times (the code under
    /// test has unseedable internal randomness, so one attempt is not enough).
    pub only_seed: Option<u64>,
    pub repeat: u64,
}

impl Ctx {
    /// Number of cases this shard should run for a nominal (quick, thorough) total.
    pub fn count(&self, quick_total: u64, thorough_total: u64) -> u64 {
        if self.only_seed.is_some() {
            return if self.shard == 0 { self.repeat } else { 0 };
        }
        let total = match self.tier {
            Tier::Quick => quick_total,
            Tier::Thorough => thorough_total,
        } as f64
            * self.scale;
        let per = (total / self.nshards as f64).ceil() as u64;
        per.max(1)
    }

    pub fn rng(&self, label: &str) -> Rng {
        Rng::new(hash64(&(self.seed, self.shard as u64, label)))
    }

    /// The seed of the next scenario (the recorded one in replay mode).
    pub fn scenario_seed(&self, fresh: u64) -> u64 {
        self.only_seed.unwrap_or(fresh)
    }

    pub fn want(&self, part: &str) -> bool {
        self.parts.is_empty() || self.parts.iter().any(|p| p == part)
    }
}

#[derive(Debug, Clone)]
pub struct Violation {
    /// Normalised signature; only an exact match with known_findings.json downgrades it.
    pub signature: String,
    pub what: String,
    /// Everything needed to understand/replay: input, history, seed.
    pub witness: Value,
}

/// What one shard observed. run.py merges shards: counters are summed, sets are unioned, hash
/// files are unioned for the distinct count.
#[derive(Default)]
pub struct Report {
    pub evaluations: u64,
    /// Hashes of the distinct non-trivial cases seen (exact count after union across shards).
    pub distinct: HashSet<u64>,
    /// For exhaustively enumerated spaces: number of enumerated, by-construction-distinct cases
    /// (added to the distinct count; not hashed).
    pub distinct_enumerated: u64,
    pub samples: Vec<Value>,
    pub violations: Vec<Violation>,
    pub inconclusive: Vec<String>,
    pub counters: BTreeMap<String, u64>,
    pub sets: BTreeMap<String, BTreeSet<String>>,
    /// Vacuity guards: counter name -> minimum (over the merged run) below which the check is
    /// reported as broken (exit 2), never as held.
    pub minimums: BTreeMap<String, u64>,
    pub exhaustive_parts: Vec<String>,
    pub violations_dropped: u64,
}

impl Report {
    pub fn new() -> Report {
        Report::default()
    }

    pub fn count(&mut self, name: &str, n: u64) {
        *self.counters.entry(name.to_string()).or_insert(0) += n;
    }

    pub fn max(&mut self, name: &str, n: u64) {
        let e = self.counters.entry(format!("max:{}", name)).or_insert(0);
        if n > *e {
            *e = n;
        }
    }

    pub fn set(&mut self, name: &str, v: impl Into<String>) {
        let s = self.sets.entry(name.to_string()).or_default();
        if s.len() < 5000 {
            s.insert(v.into());
        }
    }

    pub fn need(&mut self, counter: &str, min: u64) {
        self.minimums.insert(counter.to_string(), min);
        self.counters.entry(counter.to_string()).or_insert(0);
    }

    pub fn distinct<T: Hash + ?Sized>(&mut self, x: &T) {
        self.distinct.insert(hash64(x));
    }

    pub fn sample(&mut self, v: Value) {
        if self.samples.len() < 6 {
            self.samples.push(v);
        }
    }

    pub fn violation(&mut self, signature: &str, what: impl Into<String>, witness: Value) {
        // Keep the first few witnesses per signature; count the rest.
        let same = self
            .violations
            .iter()
            .filter(|v| v.signature == signature)
            .count();
        self.count(&format!("violations:{}", signature), 1);
        if same < 3 && self.violations.len() < 60 {
            self.violations.push(Violation {
                signature: signature.to_string(),
                what: what.into(),
                witness,
            });
        } else {
            self.violations_dropped += 1;
        }
    }

    pub fn inconclusive(&mut self, why: impl Into<String>) {
        self.count("inconclusive", 1);
        if self.inconclusive.len() < 20 {
            self.inconclusive.push(why.into());
        }
    }

    pub fn write(&self, out_dir: &Path, shard: usize) -> std::io::Result<()> {
        let mut hashes: Vec<u8> = Vec::with_capacity(self.distinct.len() * 8);
        for h in &self.distinct {
            hashes.extend_from_slice(&h.to_le_bytes());
        }
        std::fs::write(out_dir.join(format!("shard-{}.hashes", shard)), hashes)?;
        let mut m = Map::new();
        m.insert("evaluations".into(), json!(self.evaluations));
        m.insert("distinct_local".into(), json!(self.distinct.len()));
        m.insert("distinct_enumerated".into(), json!(self.distinct_enumerated));
        m.insert("samples".into(), json!(self.samples));
        m.insert(
            "violations".into(),
            Value::Array(
                self.violations
                    .iter()
                    .map(|v| json!({"signature": v.signature, "what": v.what, "witness": v.witness}))
                    .collect(),
            ),
        );
        m.insert("violations_dropped".into(), json!(self.violations_dropped));
        m.insert("inconclusive".into(), json!(self.inconclusive));
        m.insert("counters".into(), json!(self.counters));
        m.insert("sets".into(), json!(self.sets));
        m.insert("minimums".into(), json!(self.minimums));
        m.insert("exhaustive_parts".into(), json!(self.exhaustive_parts));
        std::fs::write(
            out_dir.join(format!("shard-{}.json", shard)),
            serde_json::to_vec(&Value::Object(m)).unwrap(),
        )
    }
}

/// Panic capture: messages + locations of every panic on any thread since the last `take`.
pub mod panics {
    use std::sync::Mutex;
    static LOG: Mutex<Vec<String>> = Mutex::new(Vec::new());

    pub fn install() {
        std::panic::set_hook(Box::new(|info| {
            let loc = info
                .location()
                .map(|l| format!("{}:{}", l.file(), l.line()))
                .unwrap_or_default();
            let msg = if let Some(s) = info.payload().downcast_ref::<&str>() {
                s.to_string()
            } else if let Some(s) = info.payload().downcast_ref::<String>() {
                s.clone()
            } else {
                "<non-string panic>".to_string()
            };
            if let Ok(mut l) = LOG.lock() {
                l.push(format!("{} @ {}", msg, loc));
            }
        }));
    }

    pub fn take() -> Vec<String> {
        LOG.lock().map(|mut l| std::mem::take(&mut *l)).unwrap_or_default()
    }
}

/// Run `f`, converting a panic into Err(message @ location).
pub fn catch<T>(f: impl FnOnce() -> T) -> Result<T, String> {
    let _ = panics::take();
    match std::panic::catch_unwind(std::panic::AssertUnwindSafe(f)) {
        Ok(v) => Ok(v),
        Err(_) => Err(panics::take().join(" | ")),
    }
}

/// Strip the volatile part (line numbers stay; absolute paths shortened) for signatures.
pub fn panic_site(msg: &str) -> String {
    // "<text> @ /repo/src/x.rs:12" -> "src/x.rs" (file only: robust against line shifts)
    match msg.rfind(" @ ") {
        Some(i) => {
            let loc = &msg[i + 3..];
            let file = loc.rsplit_once(':').map(|x| x.0).unwrap_or(loc);
            match file.find("/src/") {
                Some(j) if file.starts_with("/repo") => file[j + 1..].to_string(),
                _ => {
                    // dependency: keep crate dir name
                    let parts: Vec<&str> = file.split('/').collect();
                    let n = parts.len();
                    if n >= 3 {
                        parts[n - 3..].join("/")
                    } else {
                        file.to_string()
                    }
                }
            }
        }
        None => "unknown".to_string(),
    }
}
