//! Independent reference bencode: value model, canonical encoder, strict recogniser/decoder with
//! byte spans, random value generator. Never calls rdest's codec.

use crate::util::Rng;
use rdest::BValue;
use std::collections::HashMap;

#[derive(Debug, Clone, PartialEq, Eq, Hash)]
pub enum BV {
    Int(i64),
    Str(Vec<u8>),
    List(Vec<BV>),
    /// Entries in document order (may be unsorted / contain duplicates).
    Dict(Vec<(Vec<u8>, BV)>),
}

impl BV {
    pub fn s(x: &str) -> BV {
        BV::Str(x.as_bytes().to_vec())
    }

    /// Encode entries in the order stored (non-canonical if unsorted).
    pub fn encode_as_is(&self, out: &mut Vec<u8>) {
        match self {
            BV::Int(i) => {
                out.push(b'i');
                out.extend_from_slice(i.to_string().as_bytes());
                out.push(b'e');
            }
            BV::Str(s) => {
                out.extend_from_slice(s.len().to_string().as_bytes());
                out.push(b':');
                out.extend_from_slice(s);
            }
            BV::List(l) => {
                out.push(b'l');
                for v in l {
                    v.encode_as_is(out);
                }
                out.push(b'e');
            }
            BV::Dict(d) => {
                out.push(b'd');
                for (k, v) in d {
                    BV::Str(k.clone()).encode_as_is(out);
                    v.encode_as_is(out);
                }
                out.push(b'e');
            }
        }
    }

    pub fn to_bytes_as_is(&self) -> Vec<u8> {
        let mut v = vec![];
        self.encode_as_is(&mut v);
        v
    }

    /// Canonical encoding: keys sorted bytewise, last duplicate wins.
    pub fn encode_canonical(&self, out: &mut Vec<u8>) {
        match self {
            BV::Dict(d) => {
                let mut m: Vec<(Vec<u8>, BV)> = vec![];
                for (k, v) in d {
                    if let Some(e) = m.iter_mut().find(|e| &e.0 == k) {
                        e.1 = v.clone();
                    } else {
                        m.push((k.clone(), v.clone()));
                    }
                }
                m.sort_by(|a, b| a.0.cmp(&b.0));
                out.push(b'd');
                for (k, v) in &m {
                    BV::Str(k.clone()).encode_as_is(out);
                    v.encode_canonical(out);
                }
                out.push(b'e');
            }
            BV::List(l) => {
                out.push(b'l');
                for v in l {
                    v.encode_canonical(out);
                }
                out.push(b'e');
            }
            _ => self.encode_as_is(out),
        }
    }

    pub fn to_bytes_canonical(&self) -> Vec<u8> {
        let mut v = vec![];
        self.encode_canonical(&mut v);
        v
    }

    /// Convert into rdest's value type (HashMap: last duplicate wins, like `collect()`).
    pub fn to_bvalue(&self) -> BValue {
        match self {
            BV::Int(i) => BValue::Int(*i),
            BV::Str(s) => BValue::ByteStr(s.clone()),
            BV::List(l) => BValue::List(l.iter().map(|v| v.to_bvalue()).collect()),
            BV::Dict(d) => {
                let mut m = HashMap::new();
                for (k, v) in d {
                    m.insert(k.clone(), v.to_bvalue());
                }
                BValue::Dict(m)
            }
        }
    }

    pub fn from_bvalue(v: &BValue) -> BV {
        match v {
            BValue::Int(i) => BV::Int(*i),
            BValue::ByteStr(s) => BV::Str(s.clone()),
            BValue::List(l) => BV::List(l.iter().map(BV::from_bvalue).collect()),
            BValue::Dict(d) => {
                let mut e: Vec<(Vec<u8>, BV)> =
                    d.iter().map(|(k, v)| (k.clone(), BV::from_bvalue(v))).collect();
                e.sort_by(|a, b| a.0.cmp(&b.0));
                BV::Dict(e)
            }
        }
    }

    pub fn get(&self, key: &[u8]) -> Option<&BV> {
        match self {
            // last duplicate wins (HashMap semantics)
            BV::Dict(d) => d.iter().rev().find(|(k, _)| k == key).map(|(_, v)| v),
            _ => None,
        }
    }

    pub fn depth(&self) -> usize {
        match self {
            BV::List(l) => 1 + l.iter().map(|v| v.depth()).max().unwrap_or(0),
            BV::Dict(d) => 1 + d.iter().map(|(_, v)| v.depth()).max().unwrap_or(0),
            _ => 0,
        }
    }
}

#[derive(Debug, Clone, PartialEq)]
pub enum RefErr {
    /// Input ends inside a value (the only thing wrong is that bytes are missing).
    Truncated(&'static str),
    Malformed(&'static str),
    TooDeep,
}

pub const MAX_DEPTH: usize = 2000;

/// Strict reference decoder. Returns the value and the index one past its end.
pub fn decode_value(b: &[u8], pos: usize, depth: usize) -> Result<(BV, usize), RefErr> {
    if depth > MAX_DEPTH {
        return Err(RefErr::TooDeep);
    }
    if pos >= b.len() {
        return Err(RefErr::Truncated("value"));
    }
    match b[pos] {
        b'i' => {
            let mut j = pos + 1;
            while j < b.len() && b[j] != b'e' {
                j += 1;
            }
            if j >= b.len() {
                // Unterminated: malformed characters take precedence over truncation.
                let body = &b[pos + 1..];
                if body
                    .iter()
                    .enumerate()
                    .all(|(k, c)| c.is_ascii_digit() || (*c == b'-' && k == 0))
                {
                    return Err(RefErr::Truncated("int"));
                }
                return Err(RefErr::Malformed("int char"));
            }
            let body = &b[pos + 1..j];
            let (neg, digits) = match body.first() {
                Some(b'-') => (true, &body[1..]),
                _ => (false, body),
            };
            if digits.is_empty() || !digits.iter().all(|c| c.is_ascii_digit()) {
                return Err(RefErr::Malformed("int digits"));
            }
            if digits.len() > 1 && digits[0] == b'0' {
                return Err(RefErr::Malformed("int leading zero"));
            }
            if neg && digits == b"0" {
                return Err(RefErr::Malformed("negative zero"));
            }
            // range check in i128
            if digits.len() > 19 {
                return Err(RefErr::Malformed("int range"));
            }
            let mut v: i128 = 0;
            for c in digits {
                v = v * 10 + (*c - b'0') as i128;
            }
            if neg {
                v = -v;
            }
            if v < i64::MIN as i128 || v > i64::MAX as i128 {
                return Err(RefErr::Malformed("int range"));
            }
            Ok((BV::Int(v as i64), j + 1))
        }
        b'0'..=b'9' => {
            let mut j = pos;
            while j < b.len() && b[j].is_ascii_digit() {
                j += 1;
            }
            if j >= b.len() {
                return Err(RefErr::Truncated("string length"));
            }
            if b[j] != b':' {
                return Err(RefErr::Malformed("string length char"));
            }
            let digits = &b[pos..j];
            let mut len: u128 = 0;
            for c in digits {
                len = len.saturating_mul(10).saturating_add((*c - b'0') as u128);
            }
            let start = j + 1;
            if len > (b.len() - start) as u128 {
                return Err(RefErr::Truncated("string body"));
            }
            let end = start + len as usize;
            Ok((BV::Str(b[start..end].to_vec()), end))
        }
        b'l' => {
            let mut j = pos + 1;
            let mut items = vec![];
            loop {
                if j >= b.len() {
                    return Err(RefErr::Truncated("list"));
                }
                if b[j] == b'e' {
                    return Ok((BV::List(items), j + 1));
                }
                let (v, n) = decode_value(b, j, depth + 1)?;
                items.push(v);
                j = n;
            }
        }
        b'd' => {
            let mut j = pos + 1;
            let mut items = vec![];
            loop {
                if j >= b.len() {
                    return Err(RefErr::Truncated("dict"));
                }
                if b[j] == b'e' {
                    return Ok((BV::Dict(items), j + 1));
                }
                let (k, n) = decode_value(b, j, depth + 1)?;
                let key = match k {
                    BV::Str(s) => s,
                    _ => return Err(RefErr::Malformed("dict key not string")),
                };
                if n >= b.len() {
                    return Err(RefErr::Truncated("dict value"));
                }
                if b[n] == b'e' {
                    return Err(RefErr::Malformed("dict odd"));
                }
                let (v, n2) = decode_value(b, n, depth + 1)?;
                items.push((key, v));
                j = n2;
            }
        }
        _ => Err(RefErr::Malformed("delimiter")),
    }
}

/// Decode a sequence of top-level values (what `BDecoder::from_array` is specified to do).
pub fn decode_all(b: &[u8]) -> Result<Vec<BV>, RefErr> {
    let mut out = vec![];
    let mut pos = 0;
    while pos < b.len() {
        let (v, n) = decode_value(b, pos, 0)?;
        out.push(v);
        pos = n;
    }
    Ok(out)
}

/// Spans (start,end) of the values of the top-level entries of the dictionary starting at `pos`.
pub fn dict_entry_spans(b: &[u8], pos: usize) -> Result<Vec<(Vec<u8>, usize, usize)>, RefErr> {
    if pos >= b.len() || b[pos] != b'd' {
        return Err(RefErr::Malformed("not a dict"));
    }
    let mut j = pos + 1;
    let mut out = vec![];
    loop {
        if j >= b.len() {
            return Err(RefErr::Truncated("dict"));
        }
        if b[j] == b'e' {
            return Ok(out);
        }
        let (k, n) = decode_value(b, j, 1)?;
        let key = match k {
            BV::Str(s) => s,
            _ => return Err(RefErr::Malformed("dict key not string")),
        };
        let (_, n2) = decode_value(b, n, 1)?;
        out.push((key, n, n2));
        j = n2;
    }
}

/// Random value generator with delimiter-rich strings and edge integers.
pub struct Gen {
    pub max_depth: usize,
    pub max_items: usize,
    pub max_str: usize,
}

impl Gen {
    pub fn int(&self, r: &mut Rng) -> i64 {
        match r.below(10) {
            0 => 0,
            1 => -1,
            2 => i64::MAX,
            3 => i64::MIN,
            4 => r.range(0, 9) as i64,
            5 => -(r.range(1, 1000) as i64),
            6 => (r.next() >> r.below(63)) as i64,
            7 => -((r.next() >> (1 + r.below(62))) as i64),
            8 => { let k = 10i64.pow(r.below(19) as u32); match r.below(4) { 0 => k, 1 => k - 1, 2 => -(k - r.below(1000) as i64), _ => k - r.below(1000) as i64 } }
            _ => r.next() as i64,
        }
    }

    pub fn string(&self, r: &mut Rng) -> Vec<u8> {
        let n = match r.below(8) {
            0 => 0,
            1 => 1,
            2 => r.usize(self.max_str + 1),
            _ => r.usize(9),
        };
        let alphabet: &[u8] = match r.below(4) {
            0 => b"ideel:0123456789-",
            1 => b"abc",
            _ => &[],
        };
        (0..n)
            .map(|_| {
                if alphabet.is_empty() {
                    match r.below(6) {
                        0 => 0,
                        1 => 0xff,
                        2 => b':',
                        3 => b'e',
                        _ => r.below(256) as u8,
                    }
                } else {
                    *r.pick(alphabet)
                }
            })
            .collect()
    }

    pub fn value(&self, r: &mut Rng, depth: usize) -> BV {
        let leaf = depth >= self.max_depth || r.chance(2, 5);
        if leaf {
            if r.chance(1, 2) {
                BV::Int(self.int(r))
            } else {
                BV::Str(self.string(r))
            }
        } else if r.chance(1, 2) {
            let n = r.usize(self.max_items + 1);
            BV::List((0..n).map(|_| self.value(r, depth + 1)).collect())
        } else {
            let n = r.usize(self.max_items + 1);
            let mut entries: Vec<(Vec<u8>, BV)> = vec![];
            for _ in 0..n {
                // keys: prefixes of one another / differing in last byte, now and then
                let k = if !entries.is_empty() && r.chance(1, 3) {
                    let mut k = r.pick(&entries).0.clone();
                    match r.below(3) {
                        0 => k.push(r.below(256) as u8),
                        1 => {
                            if let Some(l) = k.last_mut() {
                                *l = l.wrapping_add(1);
                            } else {
                                k.push(0);
                            }
                        }
                        _ => {
                            k.pop();
                        }
                    }
                    k
                } else {
                    self.string(r)
                };
                if entries.iter().any(|e| e.0 == k) {
                    continue;
                }
                entries.push((k, self.value(r, depth + 1)));
            }
            BV::Dict(entries)
        }
    }
}
