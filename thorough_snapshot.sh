#!/bin/bash
# Long exploratory run that is immune to later edits of /repo and /verif/harness: copies both next to
# this script's directory (meant for `vp run`, whose working directory is a snapshot of /verif) and
# runs every check in the given tier against the copies. Not a registered check; results are not evidence.
set -e
cd "$(dirname "$(readlink -f "$0")")"
tier=${1:-thorough}
rm -rf repo_snap harness_snap
# the committed tree of /repo (its working tree may be carrying a seeded change at this moment)
mkdir repo_snap && git -C /repo archive HEAD | tar -x -C repo_snap && cp /repo/Cargo.lock repo_snap/
cp -r harness harness_snap && rm -rf harness_snap/target
sed -i "s|path = \"/repo\"|path = \"$PWD/repo_snap\"|" harness_snap/Cargo.toml
export VERIF_HARNESS_DIR=$PWD/harness_snap VERIF_REPO_DIR=$PWD/repo_snap
shift || true
checks=${@:-C01 C02 C03 C04 C05 C06 C07 C08 C09 C10 C11 C12 C13 C14 C15 C16 C17 C18 C19 C20}
(cd harness_snap && CARGO_NET_OFFLINE=true cargo build --release --offline 2>&1 | tail -1)
for c in $checks; do
  s=$(date +%s); rc=0; out=$(python3 run.py $c --tier $tier --no-build 2>&1) || rc=$?; e=$(date +%s)
  echo "$c rc=$rc $((e-s))s $(echo "$out" | grep -E '^(HELD|VIOLATION|ERROR)' | head -3 | tr '\n' ' ') | $(echo "$out" | grep -E 'miri|e2e' | tr '\n' ';' | cut -c1-300)"
done
