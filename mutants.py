#!/usr/bin/env python3
"""Seeded-change bookkeeping.

  mutants.py confirm <src_dir> <seeded_id> <property>   confirm a candidate (patch.diff + demo_test.rs + notes.md) in a scratch
                                                         worktree: builds, existing tests pass, demo fails with / passes without;
                                                         on success copies it to /verif/seeded/<seeded_id>/ with meta.json
  mutants.py eval <seeded_id> [checks...] [--tier T]     apply /verif/seeded/<id>/patch.diff to /repo, run the checks, undo, record
  mutants.py evalall [--tier T]                          eval every seeded change against the check of its property
"""
import json, os, shutil, subprocess, sys, time

VERIF = os.path.dirname(os.path.abspath(__file__))
SEEDED = os.path.join(VERIF, "seeded")
WT = os.environ.get("MUT_WT", "/tmp/wt/confirm")
ENV = dict(os.environ, CARGO_NET_OFFLINE="true")


def sh(cmd, cwd=None, timeout=3600):
    p = subprocess.run(cmd, cwd=cwd, env=ENV, stdout=subprocess.PIPE, stderr=subprocess.STDOUT, text=True, shell=isinstance(cmd, str), timeout=timeout)
    return p.returncode, p.stdout


def ensure_wt():
    if not os.path.isdir(WT):
        rc, out = sh(["git", "-C", "/repo", "worktree", "add", "-q", "--detach", WT, "HEAD"])
        assert rc == 0, out
        shutil.copy("/repo/Cargo.lock", WT)
    sh(["git", "checkout", "-q", "--detach", subprocess.run(["git", "-C", "/repo", "rev-parse", "HEAD"], capture_output=True, text=True).stdout.strip()], cwd=WT)
    sh("git checkout -- . && git clean -fdq tests src", cwd=WT)


def tests_summary(out):
    passed = sum(int(l.split()[3]) for l in out.splitlines() if l.startswith("test result:"))
    failed = sum(int(l.split()[5]) for l in out.splitlines() if l.startswith("test result:"))
    return passed, failed


def confirm(src, sid, prop):
    ensure_wt()
    patch = os.path.join(src, "patch.diff")
    demo = os.path.join(src, "demo_test.rs")
    rec = {"id": sid, "property": prop, "source": src}
    demo_name = "demo_%s" % sid.replace("-", "_").lower()
    shutil.copy(demo, os.path.join(WT, "tests", demo_name + ".rs"))
    # 1. demo on the clean tree must pass
    rc, out = sh(["cargo", "test", "--offline", "--features", "verif", "--test", demo_name], cwd=WT)
    rec["demo_clean"] = {"rc": rc, "tail": out[-600:]}
    # 2. apply the change
    rc_a, out_a = sh(["git", "apply", patch], cwd=WT)
    rec["apply"] = {"rc": rc_a, "out": out_a[-300:]}
    ok = rc_a == 0
    if ok:
        rc_b, out_b = sh(["cargo", "build", "--offline"], cwd=WT)
        rc_b2, out_b2 = sh(["cargo", "build", "--offline", "--features", "verif"], cwd=WT)
        rec["build"] = {"rc": rc_b, "rc_verif": rc_b2}
        os.rename(os.path.join(WT, "tests", demo_name + ".rs"), os.path.join(WT, demo_name + ".rs.off"))
        rc_t, out_t = sh(["cargo", "test", "--offline", "--tests"], cwd=WT)
        p, f = tests_summary(out_t)
        rec["existing_tests_with_change"] = {"rc": rc_t, "passed": p, "failed": f}
        os.rename(os.path.join(WT, demo_name + ".rs.off"), os.path.join(WT, "tests", demo_name + ".rs"))
        rc_d, out_d = sh(["cargo", "test", "--offline", "--features", "verif", "--test", demo_name], cwd=WT)
        rec["demo_with_change"] = {"rc": rc_d, "tail": out_d[-800:]}
        ok = rc_b == 0 and rc_b2 == 0 and rc_t == 0 and p == 71 and f == 0 and rc_d != 0 and rec["demo_clean"]["rc"] == 0
    rec["confirmed"] = bool(ok)
    sh("git checkout -- . && git clean -fdq tests src", cwd=WT)
    if ok:
        dst = os.path.join(SEEDED, sid)
        os.makedirs(dst, exist_ok=True)
        shutil.copy(patch, os.path.join(dst, "patch.diff"))
        shutil.copy(demo, os.path.join(dst, "demo_test.rs"))
        if os.path.exists(os.path.join(src, "notes.md")):
            shutil.copy(os.path.join(src, "notes.md"), os.path.join(dst, "notes.md"))
        meta = {"id": sid, "breaks_property": prop, "needs_to_manifest": "see notes.md", "confirmed_by": "mutants.py confirm in a scratch worktree of /repo (outside /repo and /verif)",
                "ran": {"build": "cargo build --offline (with and without --features verif): ok", "existing_tests_with_change": "cargo test --offline --tests: %d passed, 0 failed" % rec["existing_tests_with_change"]["passed"],
                        "demo_with_change": "cargo test --offline --features verif --test %s: FAILED (rc %d)" % (demo_name, rec["demo_with_change"]["rc"]), "demo_without_change": "same command on the clean tree: ok"},
                "repo_commit": subprocess.run(["git", "-C", "/repo", "rev-parse", "HEAD"], capture_output=True, text=True).stdout.strip(), "detected_by": {}}
        json.dump(meta, open(os.path.join(dst, "meta.json"), "w"), indent=1)
    print(json.dumps(rec, indent=1)[:3000])
    return ok


def reconfirm():
    """Do the seeded changes still break their demonstrations on the current tree (later fix:
    commits can make one of them equivalent)? Reports only."""
    ensure_wt()
    for sid in sorted(os.listdir(SEEDED)):
        d = os.path.join(SEEDED, sid)
        mp = os.path.join(d, "meta.json")
        demo = os.path.join(d, "demo_test.rs")
        if not os.path.exists(mp) or not os.path.exists(demo) or not json.load(open(mp)).get("active", True):
            continue
        name = "demo_%s" % sid.replace("-", "_").lower()
        sh("git checkout -- . && git clean -fdq tests src", cwd=WT)
        shutil.copy(demo, os.path.join(WT, "tests", name + ".rs"))
        rc_a, out_a = sh(["git", "apply", os.path.join(d, "patch.diff")], cwd=WT)
        if rc_a != 0:
            rc_a, out_a = sh("patch -p1 -s --fuzz=3 < %s" % os.path.join(d, "patch.diff"), cwd=WT)
        if rc_a != 0:
            print(sid, "PATCH-DOES-NOT-APPLY", flush=True)
            continue
        rc, out = sh(["cargo", "test", "--offline", "--features", "verif", "--test", name], cwd=WT)
        print(sid, "still-breaks-demo" if rc != 0 and "test result: FAILED" in out else ("DEMO-PASSES-WITH-CHANGE" if rc == 0 else "demo-error rc=%d" % rc), flush=True)
    sh("git checkout -- . && git clean -fdq tests src", cwd=WT)


def repo_clean():
    rc, out = sh(["git", "-C", "/repo", "status", "--porcelain", "--untracked-files=no"])
    return out.strip() == ""


def evaluate(sid, checks, tier="quick", seed=None):
    dst = os.path.join(SEEDED, sid)
    meta = json.load(open(os.path.join(dst, "meta.json")))
    if not checks:
        checks = [meta["breaks_property"]]
    assert repo_clean(), "/repo has uncommitted changes"
    rc, out = sh(["git", "-C", "/repo", "apply", os.path.join(dst, "patch.diff")])
    if rc != 0:
        # context drifted because of a later fix: commit; try with fuzz, else skip this one
        rc, out = sh("patch -p1 -s --fuzz=3 < %s && find src -name '*.orig' -delete" % os.path.join(dst, "patch.diff"), cwd="/repo")
        if rc != 0:
            sh(["git", "-C", "/repo", "checkout", "--", "."])
            sh("find src \\( -name '*.orig' -o -name '*.rej' \\) -delete", cwd="/repo")
            print(sid, "SKIPPED: patch no longer applies:", out[-200:])
            return {}
    res = {}
    try:
        for c in checks:
            t = time.time()
            cmd = ["python3", os.path.join(VERIF, "run.py"), c, "--tier", tier]
            if seed is not None:
                cmd += ["--seed", str(seed)]
            rc, out = sh(cmd, cwd=VERIF, timeout=7200)
            sigs = [l.strip() for l in out.splitlines() if l.startswith("  C") and ":" in l][:6]
            res[c] = {"rc": rc, "tier": tier, "seconds": round(time.time() - t), "violation_lines": [l for l in out.splitlines() if l.startswith("VIOLATION")][:4], "signatures": sigs,
                      "errors": [l for l in out.splitlines() if l.startswith("ERROR")][:3]}
            print(sid, c, "rc=%d" % rc, "%ds" % res[c]["seconds"], "; ".join(s[:140] for s in sigs[:2]), flush=True)
    finally:
        sh(["git", "-C", "/repo", "checkout", "--", "."])
        assert repo_clean()
    # evidence files were rewritten by runs against a modified tree: restore the committed ones
    sh(["git", "-C", VERIF, "checkout", "--", "evidence"])
    meta.setdefault("detected_by", {})
    for c, r in res.items():
        meta["detected_by"]["%s:%s%s" % (c, tier, "" if seed is None else ":seed%d" % seed)] = {"detected": r["rc"] == 1, "rc": r["rc"], "signatures": r["signatures"][:3], "seconds": r["seconds"]}
    json.dump(meta, open(os.path.join(dst, "meta.json"), "w"), indent=1)
    return res


BENIGN = os.path.join(VERIF, "benign")
ALL = ["C%02d" % i for i in range(1, 21)]


def benign(src, bid, checks=None, tier="quick", seed=None):
    """A change that is claimed to keep every property: it must build, pass the 71 tests, and every
    check must stay silent on it. Stored under /verif/benign/<id>/ with the outcome."""
    ensure_wt()
    patch = os.path.join(src, "patch.diff")
    rc_a, out_a = sh(["git", "apply", patch], cwd=WT)
    rec = {"id": bid, "apply_rc": rc_a}
    ok = rc_a == 0
    if ok:
        rc_b, _ = sh(["cargo", "build", "--offline"], cwd=WT)
        rc_b2, _ = sh(["cargo", "build", "--offline", "--features", "verif"], cwd=WT)
        rc_t, out_t = sh(["cargo", "test", "--offline", "--tests"], cwd=WT)
        p, f = tests_summary(out_t)
        rec.update({"build_rc": rc_b, "build_verif_rc": rc_b2, "tests_passed": p, "tests_failed": f})
        ok = rc_b == 0 and rc_b2 == 0 and rc_t == 0 and p == 71 and f == 0
    sh("git checkout -- . && git clean -fdq tests src", cwd=WT)
    rec["well_formed"] = bool(ok)
    if not ok:
        print(json.dumps(rec))
        return False
    dst = os.path.join(BENIGN, bid)
    os.makedirs(dst, exist_ok=True)
    if os.path.abspath(src) != os.path.abspath(dst):
        shutil.copy(patch, os.path.join(dst, "patch.diff"))
        if os.path.exists(os.path.join(src, "notes.md")):
            shutil.copy(os.path.join(src, "notes.md"), os.path.join(dst, "notes.md"))
    assert repo_clean(), "/repo has uncommitted changes"
    rc, out = sh(["git", "-C", "/repo", "apply", os.path.join(dst, "patch.diff")])
    assert rc == 0, out
    res = {}
    try:
        for c in (checks or ALL):
            t = time.time()
            cmd = ["python3", os.path.join(VERIF, "run.py"), c, "--tier", tier] + ([] if seed is None else ["--seed", str(seed)])
            rc, out = sh(cmd, cwd=VERIF, timeout=7200)
            sigs = [l.strip() for l in out.splitlines() if l.startswith("  C") and ":" in l][:4]
            res[c] = {"rc": rc, "seconds": round(time.time() - t), "signatures": sigs, "errors": [l for l in out.splitlines() if l.startswith("ERROR") or "inconclusive" in l.lower()][:3]}
            if rc != 0:
                print(bid, c, "rc=%d" % rc, "; ".join(x[:200] for x in sigs[:2]), res[c]["errors"][:1], flush=True)
    finally:
        sh(["git", "-C", "/repo", "checkout", "--", "."])
        assert repo_clean()
    sh(["git", "-C", VERIF, "checkout", "--", "evidence"])
    rec["checks"] = res
    rec["alarms"] = [c for c, r in res.items() if r["rc"] == 1]
    rec["not_ok"] = [c for c, r in res.items() if r["rc"] not in (0, 1)]
    mp = os.path.join(dst, "meta.json")
    old = json.load(open(mp)) if os.path.exists(mp) else {}
    old.update(rec)
    json.dump(old, open(mp, "w"), indent=1)
    print(bid, "alarms:", rec["alarms"], "errors:", rec["not_ok"], "total %ds" % sum(r["seconds"] for r in res.values()), flush=True)
    return True


if __name__ == "__main__":
    a = sys.argv[1:]
    tier = "quick"
    if "--tier" in a:
        i = a.index("--tier")
        tier = a[i + 1]
        del a[i:i + 2]
    seed = None
    if "--seed" in a:
        i = a.index("--seed")
        seed = int(a[i + 1])
        del a[i:i + 2]
    if a[0] == "confirm":
        sys.exit(0 if confirm(a[1], a[2], a[3]) else 1)
    elif a[0] == "benign":
        benign(a[1], a[2], a[3:] or None, tier, seed)
    elif a[0] == "reconfirm":
        reconfirm()
    elif a[0] == "eval":
        evaluate(a[1], a[2:], tier, seed)
    elif a[0] == "evalall":
        only = [x for x in a[1:] if not x.startswith("-")]
        for sid in sorted(os.listdir(SEEDED)):
            mp = os.path.join(SEEDED, sid, "meta.json")
            if os.path.exists(mp) and json.load(open(mp)).get("active", True) and (not only or any(sid >= o for o in only[:1])):
                evaluate(sid, [], tier, seed)
