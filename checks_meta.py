"""Static description of every check (level, counting rule, assumptions). The numbers in the
evidence files are measured by the workers; only the wording lives here."""

COMMON_ASSUMPTIONS = [
    "the harness' own reference models (bencode, BEP3 layout, piece/file arithmetic) are correct; they are written independently of rdest's code",
    "rustc/cargo and the vendored crates behave as documented; builds use overflow-checks=on and debug-assertions=on like a plain `cargo build`",
]

CHECKS = {
    "C15": {
        "level": "exploration",
        "technique": "differential runtime oracle: rdest encoder/decoder vs. independent reference codec over seeded random values; panics caught and attributed",
        "level_text": "Exploration: 1e5 (quick) / 3e6 (thorough) generated values are pushed through the real encoder and decoder and compared with an independent canonical encoder/strict decoder. A codec bug that affects a class of values (key order, integer formatting, length prefixes, a delimiter inside a string) is hit with overwhelming probability; a bug confined to one specific value is not guaranteed to be sampled.",
        "level_note": "Trusted: the ~300-line reference bencode in harness/src/benc.rs. Only executed inputs are judged.",
        "rule": "seeded random bencode values (depth<=6, edge integers incl. i64::MIN/MAX, delimiter-rich and binary strings, prefix-related keys); each is encoded by rdest and compared with the reference canonical encoder, decoded back and compared, and canonical multi-value documents are decoded and re-encoded. Distinct non-trivial = distinct canonical encodings of container values with >=3 nodes.",
        "assumptions": COMMON_ASSUMPTIONS,
    },
    "C16": {
        "level": "exploration",
        "technique": "differential runtime oracle against a strict reference recogniser: exhaustive small-alphabet enumeration + truncation/mutation corpus; child-process probe for stack exhaustion",
        "level_text": "Exploration with an exhaustive core: all 1.1e7 (quick) / 1.1e8 (thorough) strings over a 10-symbol delimiter-rich alphabet up to length 7/8 are decoded by the real decoder and judged by an independent strict recogniser, so every accept/reject decision that depends on at most 7/8 symbols of that alphabet is covered; longer inputs are sampled (valid documents, all truncations, mutations).",
        "level_note": "Trusted: reference recogniser in harness/src/benc.rs. Inputs longer than the bound are sampled, not enumerated.",
        "rule": "every string over the alphabet 'dlie013:-a' up to length 7 (quick) / 8 (thorough) is enumerated (by-construction distinct), plus generated valid documents with all their truncations and 8 single-byte mutations each, plus deep-nesting probes run in a child process. Each input is decoded by rdest and by the strict reference decoder; accept/reject and values must agree and nothing may panic. Distinct non-trivial = enumerated strings + distinct generated/mutated documents.",
        "assumptions": COMMON_ASSUMPTIONS + ["leading zeros in string lengths are legal (as C05 states); dictionary key order and uniqueness are not enforced; duplicate keys: last wins"],
    },
}

def _add(cid, technique, rule, level_text, level_note, level="exploration", assumptions=None, **kw):
    CHECKS[cid] = dict(level=level, technique=technique, rule=rule, level_text=level_text, level_note=level_note,
                       assumptions=COMMON_ASSUMPTIONS + (assumptions or []), **kw)

SIM_ASSUMPTIONS = [
    "the simulation runs the production PeerHandler/Session/Peer code; only Session::event_loop and spawn_peer_listener are replaced by hook-side mirrors (verif_event_loop / verif_spawn_mem_listener) and TCP by tokio::io::duplex",
    "tokio's paused clock (test-util) advances only when every task is idle, so virtual time is exact and load-independent; wall-clock watchdogs only ever yield 'inconclusive'",
    "internal randomness of the code under test (thread_rng, HashMap order, select! branch choice) is not seedable: oracles accept every legal outcome",
]

_add("C02",
     "runtime monitoring of the real session in a deterministic simulation: scripted honest swarm, bounded-progress oracle in virtual time, file-system oracle on the result, panic capture",
     "seeded scenarios: consistent torrent geometry (piece length around 16 KiB boundaries and tiny, 1..30 pieces, single/multi-file incl. zero-length and sub-piece files), 1..6 honest seeders whose piece sets cover everything (choke/unchoke cycles, latencies, Have-instead-of-Bitfield, byte-wise segmentation, small pipes), 0..9 non-essential peers that disconnect at random points (mid-frame, on request, after k blocks, at a time), 0..3 tracker failures, failpoints armed in half of the runs. Distinct non-trivial = distinct (geometry class, manager interleaving signature) pairs, the signature being the hash of the (peer, command kind) sequence the manager handled.",
     "Exploration: every scenario is a full download by the real manager and connection tasks; the oracle demands completion within a virtual-time bound (600 s + 360 s per peer), byte-identical output files, only valid piece files, no panic in any task and a manager that still answers. Liveness is decided as bounded progress only.",
     "Trusted: scripted peers/tracker of the harness, the event-loop mirror, tokio's paused clock. Unbounded 'eventually' is restated as a virtual-time bound.",
     assumptions=SIM_ASSUMPTIONS)
_add("C03",
     "file-system oracle over executions of the real Extractor: exhaustive small-scope enumeration of layouts + seeded random geometries, reference piece/file arithmetic",
     "quick: all layouts with piece length 1..4 (thorough: 1..6), 1..4 files, every file length 0..2p+1, single- and multi-file (enumerated, by-construction distinct) plus seeded random geometries (piece length up to 40000, up to 8 files, sub-directories, unicode names). Each case pre-fills a scratch directory with valid piece files, runs Extractor::run and compares every resulting file with content[offset..offset+len]; piece_length(i) is compared with the reference partition.",
     "Exploration with an exhaustive small-scope core: every way of placing up to 4 files of length 0..2p+1 relative to piece boundaries for p<=4 (6) is executed, which covers all boundary relations (start/end inside, on, across pieces; several files inside one piece; zero-length anywhere); larger sizes are sampled.",
     "Trusted: reference arithmetic in harness/src/torrent.rs; the local file system.")
_add("C04",
     "file-system canary oracle around executions of the real Extractor on hostile name/path strings",
     "seeded hostile torrents: name and per-file paths drawn from a grammar over '..', '.', '', plain/unicode components, leading '/', absolute paths into the sandbox, trailing '/', up to 4 components. The extractor runs in R/a/b/c/d/e/cwd with canary files in every ancestor; a recursive listing (names, sizes, SHA-1) of R outside cwd before and after must be identical. Only cases whose lexical worst case stays inside R are executed (safety of the check itself). Distinct non-trivial = distinct (name, paths) tuples containing '..' or a leading '/'.",
     "Exploration: hundreds (quick) to thousands (thorough) of hostile path shapes are actually executed against the real extractor and judged by what appears on disk; refusal and neutralisation both satisfy the oracle.",
     "Trusted: the lexical pre-check that keeps every executed case inside the scratch root; the local file system (no symlinks in the sandbox).")
_add("C05",
     "runtime oracle with generator-known ground truth: documents are emitted byte by byte so the top-level info span is known; info_hash() and the raw finder are compared with SHA-1 of that span",
     "seeded documents: info dictionary with required keys plus extras (incl. a nested key spelled 'info', binary strings, a name '4:info'), canonical or shuffled key order, zero-padded string lengths; top level with extra keys before/after info (nested dictionaries containing a key 'info' one and two levels deep, lists of such dictionaries, strings containing '4:info'), sorted or shuffled, optional trailing values. Distinct non-trivial = distinct accepted documents that have at least one of those shapes.",
     "Exploration: 2e4 (quick) / 5e5 (thorough) generated documents through the real parser; a hash taken over anything but the exact top-level span (re-canonicalised, wrong nesting level, wrong terminator) is detected whenever the generated shape exercises it.",
     "Trusted: the generator's bookkeeping of the span. Rejected documents are not judged (the property speaks about accepted ones).")
_add("C07",
     "differential runtime oracle: rdest message constructors/serialiser/Frame::parse vs. the harness' independent BEP3 codec; exhaustive bit-vector enumeration for bitfields",
     "seeded messages of all 11 kinds with boundary-biased u32 fields (0,1,2^14,2^16-1,2^31,2^32-1), payload lengths 0..65527 biased to both ends, random 20-byte hashes/ids, with and without trailing junk; all bit vectors of length 0..16 (enumerated) and random ones up to 4096. Distinct non-trivial = distinct encodings of messages that carry fields + enumerated bit vectors.",
     "Exploration with an exhaustive bitfield core: byte layout, field endianness, consumed length and bit order are compared against an independent encoder for 2e5 (quick) / 5e6 (thorough) messages.",
     "Trusted: harness/src/wire.rs. Message id 0x54 is never generated as an ordinary id (the code uses byte 4 == 'T' to sniff a handshake).")
_add("C13",
     "reference-model oracle over direct executions of the real choose_piece_index through hooks: exhaustive small-scope enumeration + seeded states on both sides of the end-game threshold",
     "all (status vector, peer set, advertised sets) with 1..4 pieces, statuses in {Missing,Reserved,Have}, 1..3 peers, every asking peer, 2 (quick) / 4 (thorough) repetitions for the shuffle (enumerated), plus seeded states with 8..40 pieces, 1..12 peers and the number of lacking pieces concentrated around 10. States are built through real RecvBitfield commands. The pick must lie in the reference set of legal rarest-first picks; nothing is picked iff that set is empty. Distinct non-trivial = enumerated states + distinct random states.",
     "Exploration with an exhaustive small-scope core (all states up to 4 pieces / 3 peers, below the end-game threshold) and sampling of larger states on both sides of the threshold; tie-break coverage is measured (tie classes in which several distinct members were picked).",
     "Trusted: the 15-line reference chooser; verif_set_status pokes statuses directly (peer state is built with real commands).")
_add("C14",
     "online invariant monitor over histories of real manager commands (direct-drive through hooks) with a fold of the choke/unchoke messages the manager emits, plus a wire monitor in the simulation (real connection tasks, real transfer rates, virtual time)",
     "seeded histories of real commands (bitfield arrivals, Interested/NotInterested, SyncStats with rate vectors incl. heavy ties, rotations; 0..40 peers, 3..8 rotation rounds). After every command: regular unchoked <= 10, optimistic <= 1, the fold of emitted Choke/Unchoke per peer alternates and equals the manager's am_choked; after every rotation that was carried out: no unchoked uninterested peer, no choked interested peer with a strictly higher rate than a regular slot holder. Wire part: 8..10 dialled + 2..4 incoming downloaders with different request paces compete for the slots for 45..100 virtual seconds; the same bounds and policy predicates are checked on every manager state, the Choke/Unchoke frames written on each connection must alternate starting from 'choked', and at the quiescent end their fold must equal the manager's view. Distinct non-trivial = distinct histories + distinct wire scenarios.",
     "Exploration: 8e3 (quick) / 4e5 (thorough) direct histories (about 50 manager states each) and 320 / 8000 wire scenarios.",
     "Trusted: the fold assumes the connection task transmits exactly what the manager's commands say (that translation is covered by the simulation checks).")
_add("C17",
     "runtime oracle with generator-known ground truth + panic capture: accessor values vs. the generated document, every accessor exercised on every accepted input, create/parse round trip on real files",
     "seeded well-formed documents (extra keys, shuffled order, single/multi-file, piece length and file lengths incl. 0, 1, i64::MAX and random 63-bit values, 0..6 piece hashes), mutated torrents and delimiter soup for totality, and files of sizes {0,1,2^18-1,2^18,2^18+1,2*2^18,...} with plain/space/unicode names for the create round trip. Distinct non-trivial = distinct accepted geometries/documents.",
     "Exploration: 7e4 (quick) / 2.5e6 (thorough) documents through the real parser; on every accepted one every accessor is called for every valid index under panic capture.",
     "Trusted: generator ground truth. Refusing a document is always accepted (only faithfulness of successful parses and safety are judged).")
_add("C19",
     "differential runtime oracle for reply parsing (generator-classified entries) + fault-sequence enumeration against the real session in the simulation with a gated scripted tracker",
     "replies: seeded peer lists whose entries are classified by the generator as clearly well-formed / clearly malformed (wrong type, wrong id length, negative port, non-UTF-8 ip, non-dict) / unclear (port > 65535), optional failure reason, extra keys, shuffled; mutated replies and delimiter soup for totality. Fault sequences in the simulation: all sequences over {transport error, HTTP 500, garbage body, failure reason} of length 0..3 (85), long runs 10/63/64/65/70 (thorough up to 200), overlapping announces, random ones; a probe connection must be answered while the scripted tracker keeps failing (gated, causal verdict) and the listed peers must be contacted after the first good reply. Real HTTP client: `TrackerClient::run` against a scripted loopback tracker (faults: close at once, HTTP 500, HTTP 404, garbage body, failure reason, empty body; lengths 1..7) must report every failure, keep retrying, report the good reply and end. Distinct non-trivial = distinct replies with at least one non-good entry + distinct fault sequences.",
     "Fault enumeration: all sequences over {transport error, HTTP-style error, garbage body, failure reason} up to length 3 and selected long ones are played by a scripted tracker against the real manager; the oracle is causal (probe connection answered while the tracker keeps failing; listed peers contacted after the first good reply).",
     "Trusted: the scripted tracker stands in for TrackerClient::run (same channel protocol); the real HTTP client is exercised only by C18 and the real-process layer.",
     level="fault_enumeration", assumptions=SIM_ASSUMPTIONS)

_add("C06",
     "self-differential and reference-list oracles over executions of the real Connection::recv_frame on an in-memory socket (all cuttings of short streams, adversarial and random cuttings of long ones), buffer-occupancy monitor at the decoder's wait point, and termination monitor on the real PeerHandler in the simulation",
     "streams: valid sequences of all 11 message kinds interleaved with unknown ids (body 0..65535), truncated variants, single-field mutations (length +-1, id swap, huge length, random byte), pure garbage, fixed-size ids with wrong lengths followed by up to 300 kB, oversized headers followed by 200 kB. Cuttings: all 2^(n-1) for streams up to 9 (quick) / 12 (thorough) bytes, otherwise all-at-once, byte-by-byte, at/after/before every message boundary, after the length prefix, after the id byte, plus random ones. Per (stream, cutting): no panic; same frames and terminal class as all-at-once; for known lists the frames delivered after every write are exactly the messages wholly received (unknown skipped); bytes retained at every wait point <= 4+MAX_FRAME_SIZE. Handler part: 7 malformed/oversized/truncated cases x {incoming, dialled} x {whole, 1-, 3-byte writes}: KillReq within 1 s of virtual time. Distinct non-trivial = distinct streams + distinct handler cases.",
     "Exploration with exhaustive cuttings for short streams: the decoder's result must not depend on segmentation for any of the enumerated cuttings, which covers every split position relative to length prefix, id byte and body.",
     "Trusted: quiescence barrier = 1 ms sleep on the paused clock (ends only when the reader task is blocked). Message id 0x54 is excluded from 'unknown' ids.",
     assumptions=SIM_ASSUMPTIONS)

_add("C12",
     "online invariant monitor over the manager's state after every handled command (event sink inside the manager task), with histories generated by real connection tasks driven by hostile scripted peers on a paused clock",
     "seeded scenarios: 2..5 peers drawn from personas flapper (choke/unchoke storms incl. redundant ones, data after choke, Have spam), corruptor (bit flips, wrong offset/index/length, duplicates, unrequested and overlapping blocks), disconnector (mid-frame, on request, after k blocks, at a time), choke-then-data, sparse holders and honest seeders; 1..30 pieces (both sides of the end-game threshold); failpoints armed in 2/3 of the runs; plus a targeted family 'late data after re-assignment'. After every manager event: I1 owned stays owned; I2 Reserved(n) implies a connected, unchoking peer assigned to the piece; I3 every (re)assignment names an advertised, not yet owned piece; I4 no manager panic and the loop still answers. Distinct non-trivial = distinct manager interleaving signatures (hash of the (peer, command kind) sequence handled).",
     "Exploration: 4e3 (quick) / 1e5 (thorough) scenarios, about 350 manager states each, checked after every command; evidence lists the command-kind bigrams and abstract manager states that were actually observed.",
     "Trusted: the snapshot hook reads the manager's private fields at the end of each handled command (quiescent by construction: the manager is a single task). Only the over-count direction is judged (a stale reservation), as the property states.",
     assumptions=SIM_ASSUMPTIONS)

_add("C01",
     "disk oracle taken synchronously inside the event sink at every ownership-related event (piece counted as owned, Have/Bitfield/Piece written, peer killed) + manager-state monitor after hash failures + output comparison, in the simulation with corrupting peers",
     "seeded scenarios: 1..12 pieces, one honest seeder plus 1..3 hostile peers (corruptor biased to corrupt the completing block: bit flips, wrong offset/index/length, duplicates, unrequested/overlapping blocks; flapper; disconnector incl. mid-frame) and usually a downloader that requests what the client owns; failpoints in half of the runs. Monitors: every *.piece file ever seen hashes to its name and is a piece of the torrent; whenever a piece becomes owned or is claimed on the wire (Have, Bitfield bit, Piece data) a verified file for it is on disk at that very moment; after a hash failure the peer is dropped and the piece is Missing or held by a live unchoking peer; extracted output equals the original. Distinct non-trivial = distinct manager interleaving signatures.",
     "Exploration: 2e3 (quick) / 5e4 (thorough) hostile scenarios; the evidence counts hash failures, ownership transitions and on-wire ownership claims that were actually checked against the disk.",
     "Trusted: scan of the client's directory from inside the sink (a file that looks invalid is re-read until stable, so a concurrent fs::write on the blocking pool is not mistaken for a bad file).",
     assumptions=SIM_ASSUMPTIONS)
_add("C11",
     "wire oracle against the manager log: bitfield vs. owned set at the connection's handshake event, Have frames vs. the manager's announcement sequence since the handler was spawned, disk oracle at write time, completeness at a quiescent end",
     "seeded scenarios: 1..2 seeders feeding up to 28 completions spread over virtual time while 1..3 observer connections (incoming or dialled, connecting at random moments) choke/unchoke the client on random schedules, many staying choked across many completions before unchoking; failpoints in half of the runs; completions stay below the broadcast capacity (32). Per connection: Bitfield == owned set in the snapshot of its Init event; Have frames are, in order, a prefix of the announcements made since its handler was spawned; each named piece has a verified file when written; if the peer's last choke-state message is Unchoke and the run ended quiescent, all announcements were delivered. Distinct non-trivial = distinct (interleaving signature, scenario) pairs.",
     "Exploration: 2e3 (quick) / 5e4 (thorough) scenarios; evidence counts bitfields, Have frames, deferred-Have connections and completeness checks actually performed.",
     "Trusted: spawn time of a handler = manager event after which the peer first appears in the manager's table. A receiver that lags more than 32 announcements (a peer that stops reading) is outside the stated quantifier and not generated.",
     assumptions=SIM_ASSUMPTIONS)

_add("C09",
     "wire oracle over the simulation: multiset matching of served blocks against unanswered requests, byte comparison with the original content, disk oracle for ownership, choke state judged against both the manager's snapshot and the last choke-state frame written; panic capture",
     "seeded scenarios: the client first fetches (part of) a 1..8 piece torrent from a fast seeder, then 1..4 incoming and 0..11 dialled request fuzzers run for 35..80 virtual seconds: sensible requests (whole blocks and legal sub-ranges, biased to re-request the cached piece), boundary-biased (index, begin, length) incl. begin+length = 2^32+-k, requests sent while choked, NotInterested spells spanning choke rotations (peers advertise pieces the client lacks so that this does not end the connection), more than 10 competing downloaders so that rotations choke some of them. Every Piece written must match a distinct unanswered request exactly, be <= 16 KiB, inside the piece, byte-identical to the stored content, of an owned piece, and not be written while both the manager and the wire say 'choked'. Distinct non-trivial = distinct manager interleaving signatures.",
     "Exploration: 1.5e3 (quick) / 4e4 (thorough) scenarios with about 1e5 / 3e6 requests; vacuity guards on served and refused requests; evidence counts rotations and Choke frames actually written.",
     "Trusted: the harness' request log. 'Unchoked' is judged soundly against both views so that a request racing with an Unchoke/Choke in flight is never an alarm.",
     assumptions=SIM_ASSUMPTIONS)

_add("C08",
     "wire oracle over the client's written frames per connection in the simulation, against scripted handshake abusers on incoming and outgoing connections; kill/forget monitored in the manager log",
     "seeded scenarios: the client fetches a small torrent from a seeder (so that it has something to leak) while 1..3 abusers connect in or are dialled; each sends a handshake of kind {valid, wrong info-hash (1 bit / random), wrong peer id (dialled), wrong protocol string (one byte changed, keeping the sniffed byte), short protocol string} placed first / after other messages / never / after a valid one / before a valid one, inside a plausible history (Bitfield, Interested, Unchoke, Have, Request for an owned piece). Per connection: the first thing the client writes is its own handshake (its torrent's info-hash, its id); nothing is written to an incoming connection before its valid handshake; no Piece on a connection without completed valid handshake; after an invalid handshake nothing is written later than 1 s (virtual) afterwards, the connection is dropped within 1 s and the peer is gone from the manager's table. Distinct non-trivial = distinct abuser scripts.",
     "Exploration: 3e3 (quick) / 6e4 (thorough) scenarios; evidence counts invalid handshakes judged and own handshakes checked.",
     "Trusted: validity of a handshake is decided by the harness (protocol string, info-hash, and for dialled peers the id announced by the scripted tracker).",
     assumptions=SIM_ASSUMPTIONS)

_add("C10",
     "wire oracle over the simulation with a peer that answers in chosen orders, duplicates and withholds blocks: reference tiling per assignment epoch, in-flight bound, up-front count at the first answer, completion monitored in the manager log",
     "seeded scenarios: piece length in {1, 16383, 16384, 16385, 32767, 32768, 40000, 49152, 3*16384+{0,1,2}, random <= 70000}, 1..6 pieces with last-piece remainders {1, full, L mod 16K, L-1, random}; the peer answers in order / newest first / randomly, re-sends answered blocks, never answers some requests, chokes after k answers and unchokes later; failpoints in a third of the runs. An epoch starts at every Request with begin 0: it must name the piece the manager assigned; the requests of an epoch are, in order and without repetition, the canonical tiles; never more than 2 + answered requests are out; exactly min(2, #tiles) are out when the first answer is sent; PieceDone only when every tile was answered; at a quiescent end requests == min(#tiles, 2 + answered) and a fully answered piece was completed. Distinct non-trivial = distinct (piece length, last length, peer policy) triples.",
     "Exploration: 2e3 (quick) / 5e4 (thorough) scenarios covering every residue class of the piece length relative to 16 KiB that the property names.",
     "Trusted: epochs are recognised on the wire (a Request with begin 0), cross-checked with the manager's assignment; the peer waits >= 5 ms of virtual time before any answer so that the up-front requests are observable.",
     assumptions=SIM_ASSUMPTIONS)
_add("C20",
     "virtual-time trace monitor in the simulation: scripted arrival times around the 120 s ticks; implications judged on the manager log (kill time and reason) and on the KeepAlive frames written per connection",
     "seeded scenarios of 500..1000 virtual seconds with 1..3 scripted connections (incoming/dialled) of kinds: silent from the start (with and without handshake), keep-alive only (periods 1 s..121 s), live periodic (a real message of any kind every 1 s..120 s), live on the tick grid (k*120 s + {-1,0,+1} ms), real traffic then silence (optionally keep-alives), real traffic with a silent gap, random arrivals; plus in a third of the runs a seeder that falls silent in the middle of a download. Judged: (P1) no real message for more than three intervals after the last one => dropped within 360 s of it and gone from the manager's table, reservation released; (P2) a connection with a real message at least every 120 s is never dropped with a keep-alive timeout; (P3) the KeepAlive frames written on a connection are exactly one per 120 s tick of that connection while it is open. Distinct non-trivial = distinct connection scripts.",
     "Exploration: 3e3 (quick) / 6e4 (thorough) scenarios on exact virtual time; arrivals that tie with a tick are generated on purpose and both processing orders are accepted.",
     "Trusted: tokio's paused clock; the connection task's timer origin is observed (client handshake write for dialled, the manager's Incoming event for incoming connections). Unknown message ids are not counted as 'other messages'.",
     assumptions=SIM_ASSUMPTIONS)

_add("C18",
     "runtime capture of the real HTTP request: the production TrackerClient::run (reqwest) announces to a loopback listener inside the harness; an independent request/query parser compares path, Host, surviving query parameters, info_hash bytes, peer_id, port and left with the ground truth",
     "seeded torrents with random info dictionaries (so that info_hash bytes take every value incl. NUL, '&', '%', '+', >= 0x80; the set seen is recorded), random alphanumeric peer ids, total lengths {0, 1, 2^40-1, 2^40, random}, announce URLs {no path, /announce, nested path, ?k=v, ?k=v&x=y, trailing ?, pre-encoded value, two parameters, trailing &}. Each case is one real announce over TCP on 127.0.0.1. Distinct non-trivial = distinct torrents whose announce was captured and passed.",
     "Exploration: 400 (quick) / 1e4 (thorough) real announces through reqwest; every captured request is fully parsed and compared.",
     "Trusted: the harness' HTTP head and form-urlencoded parser; loopback networking in the sandbox. Real time is used only as a 20 s watchdog (=> inconclusive).")

NOT_APPLICABLE = []

HOOK_COMMITS = ['f4e11fff6207578681bfe159fde132435a75db6b', 'c80cd8e781736d9cf047ae63c4117d911e79b492', '36e923c803e32367e0b9567db19ed45c7e679e57', 'd4d0caac768fbc161be45a56b818f54b8f8544b7', '18ace6ea4c44e4f9b55cbb2adc1f6155c1036680', '4ff155a294cff9a421227818a4b4143e0cca6a84', 'f5e7baa6659195a8ad7760e24eeacf9dbb0a6b36']

E2E_NOTE = " Real-process layer: the unmodified `rdest get` binary (feature off, overflow checks on) runs in its own network namespace against a Python fake tracker and fake peers on real TCP; completion, byte-identical output, valid piece files, absence of panics and a logical stall criterion (no socket activity, no tracker request and < 50 ms CPU for 15 s) are judged; a plain timeout is inconclusive."
CHECKS["C02"]["engines"] = [{"fn": "e2e", "tiers": ["quick", "thorough"]}, {"fn": "e2e_asan", "tiers": ["thorough"]}]
CHECKS["C01"]["engines"] = [{"fn": "e2e", "tiers": ["quick", "thorough"]}]
CHECKS["C19"]["engines"] = [{"fn": "e2e", "tiers": ["quick", "thorough"]}]
CHECKS["C06"]["engines"] = [{"fn": "e2e", "tiers": ["quick", "thorough"]}, {"fn": "e2e_asan", "tiers": ["thorough"]}]
CHECKS["C04"]["engines"] = [{"fn": "e2e", "tiers": ["quick", "thorough"]}]
CHECKS["C20"]["engines"] = [{"fn": "e2e", "tiers": ["quick", "thorough"]}]
for _c in ("C01", "C02", "C04", "C06", "C19", "C20"):
    CHECKS[_c]["rule"] += E2E_NOTE
    CHECKS[_c]["assumptions"] = CHECKS[_c]["assumptions"] + ["real-process layer: `unshare -n` works in the sandbox (otherwise runs are serialised because port 6881 is a constant); real time is only used for watchdogs and for the idle criterion"]

# Miri (thorough tier): the same workers interpreted at strongly reduced counts (engines.MIRI_PLAN)
for _c in ("C02", "C05", "C06", "C07", "C12", "C13", "C14", "C15", "C16", "C17", "C19"):
    CHECKS[_c].setdefault("engines", []).append({"fn": "miri", "tiers": ["thorough"]})
    CHECKS[_c]["assumptions"] = CHECKS[_c]["assumptions"] + ["thorough tier also runs the workload under Miri (nightly) at reduced counts: a clean run covers only what was interpreted; unsupported operations and time-outs there are reported as inconclusive"]
