"""Static description of every check (level, counting rule, assumptions). The numbers in the
evidence files are measured by the workers; only the wording lives here."""

COMMON_ASSUMPTIONS = [
    "the harness' own reference models (bencode, BEP3 layout, piece/file arithmetic) are correct; they are written independently of rdest's code",
    "rustc/cargo and the vendored crates behave as documented; builds use overflow-checks=on and debug-assertions=on like a plain `cargo build`",
]

CHECKS = {
    "C15": {
        "level": "exploration",
        "technique": "differential runtime oracle: rdest encoder/decoder vs. independent reference codec over seeded random values; panics caught and attributed",
        "level_text": "Exploration: 1e5 (quick) / 3e6 (thorough) generated values are pushed through the real encoder and decoder and compared with an independent canonical encoder/strict decoder. A codec bug that affects a class of values (key order, integer formatting, length prefixes, a delimiter inside a string) is hit with overwhelming probability; a bug confined to one specific value is not guaranteed to be sampled.",
        "level_note": "Trusted: the ~300-line reference bencode in harness/src/benc.rs. Only executed inputs are judged.",
        "rule": "seeded random bencode values (depth<=6, edge integers incl. i64::MIN/MAX, delimiter-rich and binary strings, prefix-related keys); each is encoded by rdest and compared with the reference canonical encoder, decoded back and compared, and canonical multi-value documents are decoded and re-encoded. Distinct non-trivial = distinct canonical encodings of container values with >=3 nodes.",
        "assumptions": COMMON_ASSUMPTIONS,
    },
    "C16": {
        "level": "exploration",
        "technique": "differential runtime oracle against a strict reference recogniser: exhaustive small-alphabet enumeration + truncation/mutation corpus; child-process probe for stack exhaustion",
        "level_text": "Exploration with an exhaustive core: all 1.1e7 (quick) / 1.1e8 (thorough) strings over a 10-symbol delimiter-rich alphabet up to length 7/8 are decoded by the real decoder and judged by an independent strict recogniser, so every accept/reject decision that depends on at most 7/8 symbols of that alphabet is covered; longer inputs are sampled (valid documents, all truncations, mutations).",
        "level_note": "Trusted: reference recogniser in harness/src/benc.rs. Inputs longer than the bound are sampled, not enumerated.",
        "rule": "every string over the alphabet 'dlie013:-a' up to length 7 (quick) / 8 (thorough) is enumerated (by-construction distinct), plus generated valid documents with all their truncations and 8 single-byte mutations each, plus deep-nesting probes run in a child process. Each input is decoded by rdest and by the strict reference decoder; accept/reject and values must agree and nothing may panic. Distinct non-trivial = enumerated strings + distinct generated/mutated documents.",
        "assumptions": COMMON_ASSUMPTIONS + ["leading zeros in string lengths are legal (as C05 states); dictionary key order and uniqueness are not enforced; duplicate keys: last wins"],
    },
}

NOT_APPLICABLE = []

HOOK_COMMITS = ['f4e11fff6207578681bfe159fde132435a75db6b', 'c80cd8e781736d9cf047ae63c4117d911e79b492', '36e923c803e32367e0b9567db19ed45c7e679e57', 'd4d0caac768fbc161be45a56b818f54b8f8544b7', '18ace6ea4c44e4f9b55cbb2adc1f6155c1036680']
