#!/usr/bin/env python3
"""Orchestrator for the rdest runtime-monitoring checks.

  run.py <Cxx> [--tier quick|thorough] [--seed N] [--jobs N] [--scale F] [--parts a,b]
  run.py <Cxx> --replay <file>

Rebuilds the harness (and, where a check needs it, the plain rdest binary) from /repo's working
tree, fans the check out over worker processes, merges what the monitors observed, writes
/verif/evidence/<id>.json and decides:
  exit 0  property held on everything observed (KNOWN-FINDING lines for listed, recorded defects)
  exit 1  `VIOLATION property=<id> replay=<path>` for a violation that is not listed
  exit 2  the check itself is broken / inconclusive (build failure, worker crash, vacuous run)
"""
import json, os, sys, subprocess, time, shutil, re, argparse, hashlib

VERIF = os.path.dirname(os.path.abspath(__file__))
# VERIF_HARNESS_DIR / VERIF_REPO_DIR: only used by snapshot runs (thorough_snapshot.sh) so that a long
# background run is not disturbed by edits to /repo; the registered checks always use /verif + /repo
HARNESS = os.environ.get("VERIF_HARNESS_DIR", os.path.join(VERIF, "harness"))
VH = os.path.join(HARNESS, "target", "release", "vh")
OUT = os.path.join(VERIF, "out")
EVID = os.path.join(VERIF, "evidence")
sys.path.insert(0, VERIF)
from checks_meta import CHECKS  # noqa: E402

ENV = dict(os.environ, CARGO_NET_OFFLINE="true", RUSTFLAGS=os.environ.get("RUSTFLAGS", ""))


def log(*a):
    print(*a, file=sys.stderr, flush=True)


def build_harness():
    t = time.time()
    p = subprocess.run(["cargo", "build", "--release", "--offline"], cwd=HARNESS, env=ENV,
                       stdout=subprocess.PIPE, stderr=subprocess.STDOUT, text=True)
    if p.returncode != 0:
        log(p.stdout[-6000:])
        log("ERROR: harness build failed (the tree under /repo does not compile with feature verif)")
        sys.exit(2)
    log("[build] harness ok in %.1fs" % (time.time() - t))


def build_plain_binary():
    """The unmodified rdest binary (feature off) for the real-process layer."""
    t = time.time()
    tgt = os.path.join(OUT, "target-plain")
    p = subprocess.run(["cargo", "build", "--release", "--offline", "--bin", "rdest", "--target-dir", tgt],
                       cwd="/repo", env=ENV, stdout=subprocess.PIPE, stderr=subprocess.STDOUT, text=True)
    if p.returncode != 0:
        log(p.stdout[-6000:])
        log("ERROR: rdest build failed")
        sys.exit(2)
    log("[build] rdest binary ok in %.1fs" % (time.time() - t))
    return os.path.join(tgt, "release", "rdest")


def load_known():
    p = os.path.join(VERIF, "known_findings.json")
    if not os.path.exists(p):
        return {}
    d = json.load(open(p))
    return {f["signature"]: f for f in d.get("findings", [])}


def run_shards(cid, tier, seed, jobs, scale, parts, outdir, timeout):
    procs = []
    for i in range(jobs):
        cmd = [VH, "run", cid, "--tier", tier, "--seed", str(seed), "--shard", "%d/%d" % (i, jobs),
               "--out", outdir, "--scale", str(scale)]
        if parts:
            cmd += ["--parts", parts]
        lf = open(os.path.join(outdir, "worker-%d.log" % i), "wb")
        procs.append((i, subprocess.Popen(cmd, stdout=lf, stderr=subprocess.STDOUT, cwd=outdir), lf))
    deadline = time.time() + timeout
    failed = []
    for i, p, lf in procs:
        try:
            rc = p.wait(timeout=max(1, deadline - time.time()))
        except subprocess.TimeoutExpired:
            p.kill()
            p.wait()
            rc = "watchdog"
        lf.close()
        if rc != 0:
            failed.append((i, rc))
    return failed


def merge(outdir, jobs):
    m = {"evaluations": 0, "distinct_enumerated": 0, "samples": [], "violations": [], "inconclusive": [],
         "counters": {}, "sets": {}, "minimums": {}, "exhaustive_parts": [], "violations_dropped": 0}
    hash_files = []
    for i in range(jobs):
        f = os.path.join(outdir, "shard-%d.json" % i)
        if not os.path.exists(f):
            continue
        d = json.load(open(f))
        m["evaluations"] += d["evaluations"]
        m["distinct_enumerated"] += d["distinct_enumerated"]
        m["violations_dropped"] += d.get("violations_dropped", 0)
        for s in d["samples"]:
            if len(m["samples"]) < 8:
                m["samples"].append(s)
        m["violations"] += d["violations"]
        m["inconclusive"] += d["inconclusive"]
        for k, v in d["counters"].items():
            if k.startswith("max:"):
                m["counters"][k] = max(m["counters"].get(k, 0), v)
            else:
                m["counters"][k] = m["counters"].get(k, 0) + v
        for k, v in d["sets"].items():
            m["sets"].setdefault(k, set()).update(v)
        for k, v in d["minimums"].items():
            m["minimums"][k] = max(m["minimums"].get(k, 0), v)
        for e in d["exhaustive_parts"]:
            if e not in m["exhaustive_parts"]:
                m["exhaustive_parts"].append(e)
        hash_files.append(os.path.join(outdir, "shard-%d.hashes" % i))
    distinct = 0
    if hash_files:
        r = subprocess.run([VH, "merge-hashes"] + hash_files, stdout=subprocess.PIPE, text=True)
        distinct = int(r.stdout.strip() or 0)
    m["distinct"] = distinct + m["distinct_enumerated"]
    return m


def main():
    ap = argparse.ArgumentParser()
    ap.add_argument("cid")
    ap.add_argument("--tier", default=os.environ.get("VERIF_TIER", "quick"))
    ap.add_argument("--seed", type=int, default=int(os.environ.get("VERIF_SEED", "1")))
    ap.add_argument("--jobs", type=int, default=int(os.environ.get("VERIF_JOBS", "0")) or min(16, os.cpu_count() or 4))
    ap.add_argument("--scale", type=float, default=float(os.environ.get("VERIF_SCALE", "1.0")))
    ap.add_argument("--parts", default="")
    ap.add_argument("--replay", default=None)
    ap.add_argument("--no-build", action="store_true")
    a = ap.parse_args()
    cid = a.cid.upper()
    if cid not in CHECKS:
        log("unknown check", cid)
        sys.exit(2)
    meta = CHECKS[cid]
    tier = "thorough" if a.tier == "thorough" else "quick"
    t0 = time.time()
    os.makedirs(OUT, exist_ok=True)
    os.makedirs(EVID, exist_ok=True)
    if not a.no_build:
        build_harness()

    if a.replay:
        sys.exit(replay(cid, a.replay))

    outdir = os.path.join(OUT, "%s-%s-%d" % (cid, tier, a.seed))
    shutil.rmtree(outdir, ignore_errors=True)
    os.makedirs(outdir)
    timeout = meta.get("watchdog_s", {}).get(tier, 900 if tier == "quick" else 7200)
    failed = run_shards(cid, tier, a.seed, a.jobs, a.scale, a.parts, outdir, timeout)
    m = merge(outdir, a.jobs)

    # extra engines (real-process layer, sanitizers) plug in here and add to the merged record
    for eng in meta.get("engines", []):
        if tier in eng.get("tiers", ["quick", "thorough"]) and not a.parts:
            import engines
            getattr(engines, eng["fn"])(cid, tier, a.seed, a.jobs, a.scale, outdir, m, log)

    known = load_known()
    wall = time.time() - t0
    unlisted, listed = {}, {}
    for v in m["violations"]:
        (listed if v["signature"] in known else unlisted).setdefault(v["signature"], []).append(v)

    # ---- evidence -----------------------------------------------------------------------------
    counters = dict(m["counters"])
    sets = {k: sorted(v)[:60] for k, v in m["sets"].items()}
    ev = {
        "property_id": cid,
        "tier": tier,
        "seed": a.seed,
        "level": meta["level"],
        "coverage": {
            "evaluations": m["evaluations"],
            "distinct_nontrivial": m["distinct"],
            "rule": meta["rule"],
            "samples": m["samples"],
            "exhaustive": bool(m["exhaustive_parts"]) and meta.get("exhaustive_is_whole_check", False),
            "exhaustive_parts": m["exhaustive_parts"],
            "observed_counters": counters,
            "observed_sets": sets,
            "set_sizes": {k: len(v) for k, v in m["sets"].items()},
            "inconclusive_executions": len(m["inconclusive"]),
            "inconclusive_examples": m["inconclusive"][:5],
            "known_findings_reported": sorted(listed.keys()),
            "unlisted_violation_signatures": sorted(unlisted.keys()),
            "workers": a.jobs,
            "worker_failures": [str(f) for f in failed],
        },
        "assumptions": meta["assumptions"],
        "wall_s": round(wall, 2),
        "violations": sum(len(v) for v in unlisted.values()),
    }
    json.dump(ev, open(os.path.join(EVID, cid + ".json"), "w"), indent=1, default=str)

    # ---- verdict ------------------------------------------------------------------------------
    print("%s tier=%s seed=%d: %d evaluations, %d distinct non-trivial, %.1fs" %
          (cid, tier, a.seed, m["evaluations"], m["distinct"], wall))
    for k in sorted(counters):
        if not k.startswith("violations:"):
            print("  observed %-40s %d" % (k, counters[k]))
    for sig, vs in sorted(listed.items()):
        n = counters.get("violations:" + sig, len(vs))
        w = json.dumps(vs[0]["witness"], default=str)
        print("KNOWN-FINDING: property=%s %s — %s (%d occurrences this run; e.g. %s)" %
              (cid, sig, known[sig].get("what", vs[0]["what"]), n, w[:300]))
    rc = 0
    if unlisted:
        rdir = os.path.join(OUT, "replays")
        os.makedirs(rdir, exist_ok=True)
        for sig, vs in sorted(unlisted.items()):
            path = os.path.join(rdir, "%s-%s-seed%d.json" % (cid, re.sub(r"[^A-Za-z0-9_.-]+", "_", sig)[:80], a.seed))
            json.dump({"property": cid, "signature": sig, "tier": tier, "seed": a.seed, "jobs": a.jobs,
                       "scale": a.scale, "occurrences": counters.get("violations:" + sig, len(vs)),
                       "witnesses": vs}, open(path, "w"), indent=1, default=str)
            print("  %s: %s" % (sig, vs[0]["what"][:300]))
            print("VIOLATION property=%s replay=%s" % (cid, path))
        rc = 1
    if failed:
        for i, r in failed:
            tail = open(os.path.join(outdir, "worker-%d.log" % i), "rb").read()[-1500:].decode("utf8", "replace")
            log("worker %d ended with %s\n%s" % (i, r, tail))
        if rc == 0:
            print("ERROR: %d worker(s) did not finish (%s): inconclusive" % (len(failed), failed[:3]))
            rc = 2
    if rc == 0:
        for k, need in m["minimums"].items():
            if counters.get(k, 0) < need * min(1.0, a.scale) and not a.parts:
                print("ERROR: vacuous run: observed %s=%d < required %d" % (k, counters.get(k, 0), need))
                rc = 2
        if m["evaluations"] == 0:
            print("ERROR: nothing was evaluated")
            rc = 2
        if m["inconclusive"] and len(m["inconclusive"]) > 0.2 * max(1, m["evaluations"]):
            print("ERROR: too many inconclusive executions (%d)" % len(m["inconclusive"]))
            rc = 2
    if m["inconclusive"]:
        print("  inconclusive executions: %d (e.g. %s)" % (len(m["inconclusive"]), m["inconclusive"][0][:200]))
    if rc == 0:
        print("HELD property=%s on everything observed" % cid)
    sys.exit(rc)


def find_scenario_seed(w):
    """The seed of the scenario a witness belongs to, if the check recorded one."""
    if isinstance(w, dict):
        for k in ("scenario", "wire_scenario"):
            if isinstance(w.get(k), dict) and isinstance(w[k].get("seed"), int):
                return w[k]["seed"]
        for v in w.values():
            r = find_scenario_seed(v)
            if r is not None:
                return r
    return None


def replay(cid, path):
    """Re-run what a replay file describes and say how often the same signature recurs.

    Simulation scenarios: the recorded scenario seed is run 20 times (the code under test has
    unseedable internal randomness: thread_rng, HashMap order, select! — a schedule cannot be
    reproduced bit for bit, the scenario can). Everything else: the recorded tier/seed/shard layout
    is deterministic on the harness side and is simply run again."""
    d = json.load(open(path))
    sig = d["signature"]
    outdir = os.path.join(OUT, "%s-replay" % cid)
    seeds = [x for x in (find_scenario_seed(w.get("witness")) for w in d.get("witnesses", [])) if x is not None]
    for w in d.get("witnesses", [])[:1]:
        print("recorded witness: %s" % w.get("what", "")[:400])
        tr = (w.get("witness") or {}).get("trace") or (w.get("witness") or {}).get("trace_tail")
        for line in (tr or [])[-12:]:
            print("    " + str(line)[:220])
    hits, attempts = 0, 0
    w0 = (d.get("witnesses") or [{}])[0].get("witness") or {}
    if str(w0.get("engine", "")).startswith("e2e"):
        import engines
        r = engines.replay_e2e(cid, w0, sig)
        if r is None:
            print("the replay file does not carry the full real-process scenario: run the check again with the recorded seed instead")
            return 2
        hits, attempts = r
        print("real-process scenario run %d times: signature %s in %d of them" % (attempts, sig, hits))
    elif seeds and cid not in ("C19",):
        for sd in seeds[:2]:
            shutil.rmtree(outdir, ignore_errors=True)
            os.makedirs(outdir)
            cmd = [VH, "run", cid, "--tier", d["tier"], "--seed", str(d["seed"]), "--shard", "0/1", "--out", outdir, "--scenario-seed", str(sd), "--repeat", "20"]
            subprocess.run(cmd, stdout=subprocess.DEVNULL, stderr=subprocess.DEVNULL, cwd=outdir, timeout=3600)
            m = merge(outdir, 1)
            attempts += 20
            hits += m["counters"].get("violations:" + sig, 0)
            print("scenario seed %d: signature %s in %d of 20 attempts" % (sd, sig, m["counters"].get("violations:" + sig, 0)))
    else:
        jobs = d.get("jobs", 16)
        for k in range(2):
            shutil.rmtree(outdir, ignore_errors=True)
            os.makedirs(outdir)
            run_shards(cid, d["tier"], d["seed"], jobs, d.get("scale", 1.0), "", outdir, 7200)
            m = merge(outdir, jobs)
            attempts += 1
            if any(v["signature"] == sig for v in m["violations"]):
                hits += 1
        print("full re-run of tier=%s seed=%d: signature %s in %d of %d runs" % (d["tier"], d["seed"], sig, hits, attempts))
    if hits:
        print("VIOLATION property=%s replay=%s" % (cid, path))
        return 1
    print("not reproduced on the current tree")
    return 0


if __name__ == "__main__":
    main()
