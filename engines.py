"""Extra engines plugged into run.py: the real-process layer (e2e) and sanitizer builds.

Every engine adds what it observed to the merged record `m` (same structure as the Rust workers'
reports): evaluations, counters, samples, violations (signature/what/witness), inconclusive."""
import json, os, random, shutil, struct, subprocess, sys, time, hashlib
from concurrent.futures import ThreadPoolExecutor

VERIF = os.path.dirname(os.path.abspath(__file__))
OUT = os.path.join(VERIF, "out")
CELL = os.path.join(VERIF, "e2e", "cell.py")


def _count(m, k, n=1):
    m["counters"][k] = m["counters"].get(k, 0) + n


def _viol(m, sig, what, witness):
    _count(m, "violations:" + sig)
    if sum(1 for v in m["violations"] if v["signature"] == sig) < 3:
        m["violations"].append({"signature": sig, "what": what, "witness": witness})


def build_binary(log, asan=False):
    t = time.time()
    env = dict(os.environ, CARGO_NET_OFFLINE="true")
    if asan:
        tgt = os.path.join(OUT, "target-asan")
        env["RUSTFLAGS"] = "-Zsanitizer=address -Cforce-frame-pointers=yes"
        cmd = ["cargo", "+nightly", "build", "--release", "--offline", "--bin", "rdest", "--target", "x86_64-unknown-linux-gnu", "--target-dir", tgt]
        path = os.path.join(tgt, "x86_64-unknown-linux-gnu", "release", "rdest")
    else:
        tgt = os.path.join(OUT, "target-plain")
        env["RUSTFLAGS"] = "-Coverflow-checks=on -Cdebug-assertions=on"
        cmd = ["cargo", "build", "--release", "--offline", "--bin", "rdest", "--target-dir", tgt]
        path = os.path.join(tgt, "release", "rdest")
    p = subprocess.run(cmd, cwd=os.environ.get("VERIF_REPO_DIR", "/repo"), env=env, stdout=subprocess.PIPE, stderr=subprocess.STDOUT, text=True)
    if p.returncode != 0:
        log(p.stdout[-3000:])
        return None
    log("[build] rdest binary (%s) ok in %.1fs" % ("asan" if asan else "plain, overflow checks on", time.time() - t))
    return path


def have_netns():
    try:
        return subprocess.run(["unshare", "-n", "true"], stdout=subprocess.DEVNULL, stderr=subprocess.DEVNULL).returncode == 0
    except Exception:
        return False


# ---------------------------------------------------------------------------------------------
# scenario generators (independent of the Rust harness)

def gen_geometry(r):
    plen = r.choice([1 << 14, (1 << 14) + 1, (1 << 14) - 1, 3 * (1 << 14), 40000, r.randint(20000, 70000), r.randint(64, 5000), 1 << 15])
    n = r.randint(1, 9)
    total = (n - 1) * plen + r.choice([plen, 1, plen - 1, r.randint(1, plen)])
    single = r.random() < 0.5
    if single:
        files = [["out.bin", total]]
        name = "out.bin"
    else:
        k = r.randint(2, 5)
        cuts = sorted(r.choice([0, total, r.randint(0, total), (r.randint(0, n) * plen) % (total + 1)]) for _ in range(k - 1))
        lens, prev = [], 0
        for c in cuts:
            lens.append(c - prev)
            prev = c
        lens.append(total - prev)
        files = [[("sub%d/f%d.dat" % (i % 2, i)) if r.random() < 0.3 else "f%d.dat" % i, l] for i, l in enumerate(lens)]
        name = "outdir"
    return dict(piece_length=plen, files=files, single=single, name=name, content_seed=r.getrandbits(32)), n


def gen_c02(r):
    g, n = gen_geometry(r)
    honest = r.randint(1, 4)
    haves = [[False] * n for _ in range(honest)]
    for i in range(n):
        haves[r.randrange(honest)][i] = True
        for h in haves:
            if r.random() < 0.3:
                h[i] = True
    peers = []
    for k in range(honest + r.choice([0, 0, 1, 2])):
        ess = k < honest
        p = dict(port=7001 + k, id="-FK%04d-abcdefghijkl" % k, incoming=(not ess and r.random() < 0.4) or (ess and r.random() < 0.15),
                 have=haves[k] if ess else [r.random() < 0.5 for _ in range(n)], seed=r.getrandbits(32),
                 chunk=r.choice([0, 0, 0, 1, 7, 1000]), latency_ms=r.choice([0, 0, 5, 40]), unchoke_delay_ms=r.choice([0, 0, 50, 400]))
        if ess and r.random() < 0.4:
            p["choke_after_blocks"] = r.randint(1, 5)
            p["choke_ms"] = r.choice([50, 300, 900])
        if not ess:
            p["disconnect_after_blocks"] = r.randint(0, 4)
            p["mid_frame"] = r.random() < 0.5
        if p["incoming"]:
            p["connect_delay_ms"] = r.choice([100, 400, 1200])
        peers.append(p)
    # The client refuses an incoming connection while four or more connected peers have nothing
    # it wants (MAX_NOT_INTERESTED), and a refused peer is not "reachable" in the sense of C02:
    # an essential peer connects in only when fewer than four other peers can be connected.
    if any(p["incoming"] for p in peers[:honest]) and len(peers) - 1 > 2:  # (one more peer may be added by the C01 variant)
        for p in peers[:honest]:
            p["incoming"] = False
            p.pop("connect_delay_ms", None)
    faults = r.choice([[], [], ["close"], ["http500"], ["garbage"], ["failure"], ["close", "failure"]])
    for p in peers:
        if not p["incoming"] and r.random() < 0.2:
            p["host"] = "localhost"  # BEP3: "ip" may be a DNS name
        if r.random() < 0.3:
            p["id_hex"] = (b"-FK" + bytes(0x80 + r.randrange(0x40) for _ in range(17))).hex()  # ids are binary
    if r.random() < 0.3 and not any(p["incoming"] for p in peers[:honest]):
        # something connects in right at the start, never says a word and stays (it counts as a
        # connected peer the client is not interested in: see the admission rule above)
        peers.append(dict(port=7300, id="-FK0300-abcdefghijkl", incoming=True, have=[False] * n, seed=0, kind="mute", connect_delay_ms=r.choice([0, 50, 150]), hold_s=60))
    g.update(peers=peers, tracker_faults=faults, tracker_port=8000, timeout_s=90, stall_s=15, tracker_delivery=r.choice(["whole", "whole", "split", "chunked"]))
    if r.random() < 0.15:
        g["stdout_closed"] = True  # `rdest get x | head`: nobody reads what the client prints
    return g


def gen_c02_dead_peers(r):
    """More listed peers than the client dials at once; the useful ones come first in the list
    (dialled last) and nobody listens on the other addresses (TCP connection refused)."""
    g, n = gen_geometry(r)
    peers = [dict(port=7001, id="-FK0000-abcdefghijkl", incoming=False, have=[True] * n, seed=r.getrandbits(32), chunk=0, latency_ms=0, unchoke_delay_ms=0)]
    for k in range(r.randint(11, 13)):
        peers.append(dict(port=7100 + k, id="-FK%04d-abcdefghijkl" % (100 + k), incoming=False, have=[False] * n, seed=0, dead=True))
    g.update(peers=peers, tracker_faults=[], tracker_port=8000, timeout_s=90, stall_s=15)
    return g


def gen_c02_all_incoming(r):
    """The tracker knows nobody; two or three seeders with complementary pieces connect in."""
    g, n = gen_geometry(r)
    k = 3
    haves = [[False] * n for _ in range(k)]
    for i in range(n):
        haves[r.randrange(k)][i] = True
    peers = [dict(port=7001 + j, id="-FK%04d-abcdefghijkl" % j, incoming=True, have=haves[j], seed=r.getrandbits(32), chunk=0, latency_ms=r.choice([0, 5]), unchoke_delay_ms=0, connect_delay_ms=300 + r.choice([0, 20, 150]) * j) for j in range(k)]
    g.update(peers=peers, tracker_faults=[], tracker_port=8000, timeout_s=90, stall_s=15)
    return g


def _msg(mid, body=b""):
    return struct.pack(">IB", 1 + len(body), mid) + body


def gen_c06(r):
    """Honest seeders whose streams carry well-formed frames that must be skipped (unknown ids,
    keep-alives) in odd TCP segmentations - they are the only holders of their pieces, so the
    download completes only if every message after the noise is still delivered - plus peers that
    end a legal prefix with a malformed frame and must be disconnected."""
    g, n = gen_geometry(r)
    k = r.randint(1, 2)
    haves = [[False] * n for _ in range(k)]
    for i in range(n):
        haves[r.randrange(k)][i] = True
    peers = []
    for j in range(k):
        peers.append(dict(port=7001 + j, id="-FK%04d-abcdefghijkl" % j, incoming=r.random() < 0.25, have=haves[j], seed=r.getrandbits(32),
                          chunk=r.choice([0, 1, 2, 3, 5, 7, 68, 1000, 16384]), latency_ms=r.choice([0, 0, 5]), unchoke_delay_ms=r.choice([0, 50]),
                          noise_permille=r.choice([300, 600, 800]), connect_delay_ms=200))
    for j in range(r.randint(1, 2)):
        kind = r.choice(["oversized-length", "oversized-length", "huge-length", "wrong-length-fixed", "short-piece", "truncated-then-eof", "garbage"])
        bf = bytearray((n + 7) // 8)
        for i in range(n):
            if r.random() < 0.5:
                bf[i // 8] |= 0x80 >> (i % 8)
        legal = [_msg(5, bytes(bf))] + [r.choice([_msg(4, struct.pack(">I", r.randrange(n))), bytes(4), _msg(2), _msg(r.choice([9, 77, 255]), r.randbytes(r.choice([0, 5, 300])))]) for _ in range(r.randint(0, 4))]
        expect = True
        then_close = False
        if kind == "oversized-length":
            bad = struct.pack(">IB", r.choice([65537, 65538, 70000, 1 << 17, 1 << 20]), r.choice([7, 5, 6, 9, 200])) + r.randbytes(r.choice([0, 16, 3000]))
        elif kind == "huge-length":
            bad = struct.pack(">IB", r.choice([0x7fffffff, 0x80000000, 0xffffffff, 0xfffffffe, 1 << 30]), r.choice([7, 5, 9, 4])) + r.randbytes(r.choice([0, 64]))
        elif kind == "wrong-length-fixed":
            mid, good = r.choice([(0, 1), (1, 1), (2, 1), (3, 1), (4, 5), (6, 13), (8, 13)])
            ln = r.choice([x for x in (good - 1, good + 1, good + 4, 2, 9) if x != good and x >= 1])
            bad = struct.pack(">IB", ln, mid) + r.randbytes(ln - 1)
        elif kind == "short-piece":
            ln = r.randint(1, 8)
            bad = struct.pack(">IB", ln, 7) + r.randbytes(ln - 1)
        elif kind == "truncated-then-eof":
            full = _msg(7, struct.pack(">II", 0, 0) + r.randbytes(r.choice([100, 16384])))
            bad = full[:r.randint(1, len(full) - 1)]
            expect, then_close = False, True
        else:
            bad = r.randbytes(r.choice([5, 64, 4000]))
            expect = False  # may or may not parse as something legal: only "no crash" is judged
        script = [dict(hex=m.hex(), chunk=r.choice([0, 0, 1, 3])) for m in legal] + [dict(hex=bad.hex(), chunk=r.choice([0, 0, 1, 2, 5]))]
        peers.append(dict(port=7050 + j, id="-FK%04d-abcdefghijkl" % (50 + j), incoming=r.random() < 0.5, have=[False] * n, seed=r.getrandbits(32), kind=kind,
                          expect_close=expect, then_close=then_close, script=script, connect_delay_ms=r.choice([100, 300]), close_within_s=10))
    g.update(peers=peers, tracker_faults=[], tracker_port=8000, timeout_s=90, stall_s=15)
    return g


def gen_c02_incoming_churn(r):
    """Nine to twelve peers connect in, shake hands and leave one after the other; then a seeder
    that is reachable only inbound connects (and sends its handshake a little late, while other
    events keep the client's main loop busy)."""
    g, n = gen_geometry(r)
    k = r.randint(9, 12)
    peers = [dict(port=7200 + j, id="-FK%04d-abcdefghijkl" % (200 + j), incoming=True, have=[False] * n, seed=0, kind="visitor", connect_delay_ms=300 + 180 * j, linger_ms=r.choice([20, 100])) for j in range(k)]
    peers.append(dict(port=7001, id="-FK0000-abcdefghijkl", incoming=True, have=[True] * n, seed=r.getrandbits(32), chunk=0, latency_ms=0, unchoke_delay_ms=0,
                      connect_delay_ms=300 + 180 * k + 400, handshake_delay_ms=r.choice([0, 0, 300])))
    g.update(peers=peers, tracker_faults=[], tracker_port=8000, timeout_s=90, stall_s=15, wait_hostile_s=0)
    return g


def gen_c02_same_address_twice(r):
    """A listed seeder that, while the client is downloading from it, also connects in from its own
    listening port (legal TCP; some clients bind outgoing connections to their listening port), so
    that the client sees two connections with one remote address, and closes the second one again."""
    g, n = gen_geometry(r)
    peers = [dict(port=7001, id="-FK0000-abcdefghijkl", incoming=False, have=[True] * n, seed=r.getrandbits(32), chunk=0, latency_ms=r.choice([30, 80, 200]), unchoke_delay_ms=r.choice([0, 200]),
                  second_connection_from_own_port=True, second_after_ms=r.choice([50, 200, 600]), second_linger_ms=r.choice([100, 400, 1500]))]
    if r.random() < 0.5:
        peers.append(dict(port=7002, id="-FK0001-abcdefghijkl", incoming=False, have=[r.random() < 0.5 for _ in range(n)], seed=r.getrandbits(32), chunk=0, latency_ms=50, unchoke_delay_ms=0))
    g.update(peers=peers, tracker_faults=[], tracker_port=8000, timeout_s=90, stall_s=15)
    return g


def gen_c02_late_handshake(r):
    """An inbound seeder with exclusive pieces sends its handshake only after a pause, while a
    dialled seeder is being downloaded from (the client's main loop is busy with other events
    between accept and first byte). The pause stays at a few seconds: a client is free to give up on
    a connection that does not shake hands for a long time."""
    g, n = gen_geometry(r)
    ex = [r.random() < 0.5 for _ in range(n)]
    if not any(ex):
        ex[r.randrange(n)] = True
    peers = [dict(port=7001, id="-FK0000-abcdefghijkl", incoming=False, have=[not x for x in ex], seed=r.getrandbits(32), chunk=r.choice([0, 1000]), latency_ms=r.choice([20, 60]), unchoke_delay_ms=0),
             dict(port=7002, id="-FK0001-abcdefghijkl", incoming=True, have=ex, seed=r.getrandbits(32), chunk=0, latency_ms=0, unchoke_delay_ms=0, connect_delay_ms=r.choice([150, 400]),
                  handshake_delay_ms=r.choice([200, 600, 1500, 3000]))]
    g.update(peers=peers, tracker_faults=[], tracker_port=8000, timeout_s=90, stall_s=15)
    return g


def gen_have_all(g):
    total = sum(f[1] for f in g["files"])
    return [True] * ((total + g["piece_length"] - 1) // g["piece_length"])


def gen_c04(r):
    """The .torrent lies somewhere else than the start directory (relative path with a directory
    part, parent directory, absolute path); one run in three has a hostile file name as well.
    Whatever happens, nothing may appear outside the start directory."""
    g = gen_c02(r)
    g["tracker_faults"] = []
    g["torrent_rel"] = r.choice(["../tdir/t.torrent", "../t.torrent", "sub/t.torrent", "ABS:abs/dir/t.torrent", "./t.torrent", "../a/b/../c/t.torrent"])
    if r.random() < 0.34 and not g["single"]:
        bad = r.choice(["../evil.dat", "../../evil.dat", "sub/../../evil.dat", "/tmp/vh-evil-%d.dat" % r.getrandbits(30), "../tdir/evil.dat", "../../newdir/evil.dat", "../../escaped/deeper/evil.dat", "x/../../../made_outside/evil.dat"])
        g["files"][r.randrange(len(g["files"]))][0] = bad
        g["hostile_name"] = bad
        g["stall_s"] = 5
    return g


def gen_c20(r, long=False, silent=False):
    """Slow but live seeders on real TCP: the download takes 40-60 s (long: 150 s; silent: a peer
    that says nothing is watched for six minutes). The client may not hang up on a peer that keeps
    delivering; in the long runs its keep-alives are expected every two minutes."""
    while True:
        g, n = gen_geometry(r)
        total = sum(f[1] for f in g["files"])
        plen = g["piece_length"]
        blocks = sum((min(plen, total - i * plen) + 16383) // 16384 for i in range(n))
        if blocks >= 6:
            break
    want_s = r.uniform(150, 170) if long else r.uniform(38, 48)
    k = r.randint(1, 2)
    haves = [[False] * n for _ in range(k)]
    for i in range(n):
        haves[r.randrange(k)][i] = True
    if not any(haves[0]):
        haves[0][0] = True
        for h in haves[1:]:
            h[0] = False
    # requests are answered one at a time after uniform(0, latency): mean latency/2 per block, per peer
    per_peer = max(1, blocks // k)
    lat = int(2 * want_s * 1000 / per_peer)
    peers = [dict(port=7001 + j, id="-FK%04d-abcdefghijkl" % j, incoming=(j == 1 and r.random() < 0.5), have=haves[j], seed=r.getrandbits(32), chunk=0, latency_ms=min(lat, 60000), unchoke_delay_ms=0, connect_delay_ms=300) for j in range(k)]
    g.update(peers=peers, tracker_faults=[], tracker_port=8000, timeout_s=int(want_s * 2.2) + 60, stall_s=int(min(lat, 60000) / 1000) + 20, expect_min_s=want_s)
    if silent:
        for p in peers:
            p["latency_ms"] = 0
        peers.append(dict(port=7060, id="-FK0060-abcdefghijkl", incoming=r.random() < 0.5, have=[False] * n, seed=0, kind="silent", expect_close=True, script=[], connect_delay_ms=200,
                          keepalive_every_s=r.choice([None, 50, 119]), give_up_s=400))
        g.update(timeout_s=460, wait_hostile_s=420, stall_s=500)
    return g


def gen_c06_tiny_handshake(r):
    """The only seeder connects in and writes everything, its handshake included, in segments of a
    few bytes: what the client decodes may not depend on where TCP cut the stream."""
    g, n = gen_geometry(r)
    peers = [dict(port=7001, id="-FK0000-abcdefghijkl", incoming=True, have=[True] * n, seed=r.getrandbits(32), chunk=r.choice([1, 2, 3, 5, 7, 19]), latency_ms=0, unchoke_delay_ms=0, connect_delay_ms=200, noise_permille=r.choice([0, 300]))]
    g.update(peers=peers, tracker_faults=[], tracker_port=8000, timeout_s=120, stall_s=15)
    return g


def gen_c20_mute_block(r):
    """Four connections that never say a word are accepted first; the only seeder keeps trying to
    connect in every 10 s. While the four are there it is turned away (admission rule); once they
    have been dropped for silence (three keep-alive intervals) and their table entries released, it
    gets in and the download completes - some 370 s after the start, in real time."""
    g, n = gen_geometry(r)
    peers = [dict(port=7300 + j, id="-FK03%02d-abcdefghijkl" % j, incoming=True, have=[False] * n, seed=0, kind="mute", connect_delay_ms=100 + 20 * j, hold_s=500) for j in range(4)]
    peers.append(dict(port=7001, id="-FK0000-abcdefghijkl", incoming=True, have=[True] * n, seed=r.getrandbits(32), chunk=0, latency_ms=0, unchoke_delay_ms=0, connect_delay_ms=1500, retry_s=10, retry_for_s=440))
    g.update(peers=peers, tracker_faults=[], tracker_port=8000, timeout_s=450, stall_s=1000, wait_hostile_s=0, family="mute_block")
    return g


def gen_c01_mislabel(r):
    """An honest seeder and one that answers the first two blocks of a piece with the right bytes
    under each other's offsets (in arrival order they still concatenate to the true piece)."""
    while True:
        g, n = gen_geometry(r)
        if g["piece_length"] >= 32768:
            break
    peers = [dict(port=7001, id="-FK0000-abcdefghijkl", incoming=False, have=[True] * n, seed=r.getrandbits(32), chunk=0, latency_ms=r.choice([20, 50]), unchoke_delay_ms=r.choice([0, 100])),
             dict(port=7090, id="-FK0090-abcdefghijkl", incoming=False, have=[True] * n, seed=r.getrandbits(32), chunk=0, latency_ms=0, unchoke_delay_ms=0, swap_labels=True)]
    g.update(peers=peers, tracker_faults=[], tracker_port=8000, timeout_s=90, stall_s=15)
    return g


def gen_c01(r):
    g = gen_c02(r)
    if r.random() < 0.34:
        g["leftover_piece"] = r.randrange(64)  # a damaged piece file left from an earlier run
    n = len(g["peers"][0]["have"])
    g["peers"].append(dict(port=7090, id="-FK0090-abcdefghijkl", incoming=False, have=[True] * n, seed=r.getrandbits(32), chunk=0,
                           latency_ms=0, unchoke_delay_ms=0, corrupt_permille=r.choice([100, 300, 600])))
    return g


def gen_c08(r):
    """An honest seeder with everything, and one or two *listed* peers that answer the client's
    handshake with a handshake of another torrent or with an id other than the announced one."""
    g, n = gen_geometry(r)
    peers = [dict(port=7001, id="-FK0000-abcdefghijkl", incoming=False, have=[True] * n, seed=r.getrandbits(32), chunk=r.choice([0, 0, 1000]), latency_ms=r.choice([0, 5, 40]), unchoke_delay_ms=r.choice([0, 50, 400]))]
    for j in range(r.randint(1, 2)):
        peers.append(dict(port=7050 + j, id="-FK%04d-abcdefghijkl" % (50 + j), incoming=False, have=[False] * n, seed=r.getrandbits(32), kind="bad-handshake",
                          bad_handshake=r.choice(["info_hash", "peer_id"]), expect_close=True, then_close=False, script=[], close_within_s=10))
    if r.random() < 0.5:
        peers.reverse()
    g.update(peers=peers, tracker_faults=r.choice([[], [], ["close"], ["failure"]]), tracker_port=8000, timeout_s=90, stall_s=15)
    return g


def gen_c19(r, length=None):
    g = gen_c02(r)
    for p in g["peers"]:
        p["incoming"] = False
    l = length if length is not None else r.randint(1, 4)
    g["tracker_faults"] = [r.choice(["close", "http500", "garbage", "failure", "slow500"]) for _ in range(l)]
    if l >= 3:
        # somebody connects in while the announces are still failing: the session has to serve it
        n = len(g["peers"][0]["have"])
        g["peers"].append(dict(port=7400, id="-FK0400-abcdefghijkl", incoming=True, have=[False] * n, seed=0, chunk=0, latency_ms=0, unchoke_delay_ms=-1, connect_delay_ms=r.choice([300, 800, 1500]), probe=True))
    g["timeout_s"] = 60 + 2 * l
    g["tracker_delivery"] = r.choice(["whole", "split", "chunked"])
    for p in g["peers"]:
        if r.random() < 0.3:
            p["host"] = "localhost"  # BEP3: "ip" may be a DNS name
    return g


GENS = {"C02": gen_c02, "C01": gen_c01, "C19": gen_c19, "C06": gen_c06, "C04": gen_c04, "C20": gen_c20, "C08": gen_c08}


def run_cell(binary, sc, idx, root, netns):
    work = os.path.join(root, "cell%d" % idx)
    shutil.rmtree(work, ignore_errors=True)
    os.makedirs(work)
    scf = os.path.join(work, "scenario.json")
    json.dump(sc, open(scf, "w"))
    cmd = ["python3", CELL, scf, binary, os.path.join(work, "cwd")]
    if netns:
        cmd = ["unshare", "-n"] + cmd
    try:
        p = subprocess.run(cmd, stdout=subprocess.PIPE, stderr=subprocess.PIPE, text=True, timeout=sc.get("timeout_s", 90) + 60)
        res = json.loads(p.stdout.strip().splitlines()[-1]) if p.stdout.strip() else {"verdict": "harness-error", "detail": p.stderr[-500:]}
    except subprocess.TimeoutExpired:
        res = {"verdict": "harness-error", "detail": "cell watchdog"}
    except Exception as e:  # noqa
        res = {"verdict": "harness-error", "detail": repr(e)}
    shutil.rmtree(work, ignore_errors=True)
    return res


def _judge_cell(cid, tag, asan, sc, res, m, shapes):
    """Verdict of one real-process run (shared by the engine and by --replay)."""
    m["evaluations"] += 1
    v = res.get("verdict")
    desc = {k: sc[k] for k in ("piece_length", "files", "single", "tracker_faults")} | {k: sc[k] for k in ("tracker_delivery", "torrent_rel", "hostile_name", "leftover_piece", "stdout_closed") if k in sc}
    desc["peers"] = [{k: p.get(k) for k in ("port", "host", "id_hex", "incoming", "chunk", "latency_ms", "choke_after_blocks", "disconnect_after_blocks", "mid_frame", "corrupt_permille", "noise_permille", "kind", "script", "connect_delay_ms", "handshake_delay_ms", "keepalive_every_s", "second_connection_from_own_port", "second_after_ms", "second_linger_ms") if p.get(k) is not None} | {"pieces": "".join("1" if b else "0" for b in p["have"])} for p in sc["peers"]]
    wit = {"engine": tag, "scenario": desc, "scenario_full": sc if len(json.dumps(sc)) < 200000 else None, "result": {k: res.get(k) for k in ("verdict", "detail", "elapsed_s", "panics", "sanitizer", "piece_problems", "hostile", "closed_by_client", "conn_life", "handshake_reply_s", "outside_start_dir", "peak_rss_kb", "log_tail", "stdout_tail")}}
    _count(m, "%s:%s" % (tag, v))
    if res.get("sanitizer"):
        _viol(m, "%s:%s:sanitizer-report" % (cid, tag), "AddressSanitizer report in the client: %s" % res["sanitizer"][:2], wit)
        return
    if res.get("piece_problems"):
        _viol(m, "C01:%s:stored-piece-not-verified" % tag if cid == "C01" else "%s:%s:stored-piece-not-verified" % (cid, tag), "; ".join(res["piece_problems"]), wit)
        return
    if cid == "C08":
        badports = {p["port"]: p.get("bad_handshake") for p in sc["peers"] if p.get("bad_handshake")}
        for h in res.get("hostile", []):
            if h.get("port") in badports and h.get("done") and not h.get("error"):
                _count(m, "e2e_rejected_handshake_connections")
                if h.get("closed_after_s") is None and h.get("closed_early_at_step") is None:
                    wit["hostile"] = h
                    _viol(m, "C08:%s:connection-kept-after-invalid-handshake" % tag, "listed peer %s answered with a handshake whose %s is wrong; the client kept the connection open for %s s" % (h.get("port"), badports[h["port"]], h.get("waited_s")), wit)
                    return
        for port in badports:
            stamps = [d["tracker_requests"] for d in res.get("dials", []) if d["port"] == port]
            _count(m, "e2e_dials_of_rejected_peers", len(stamps))
            for a, b in zip(stamps, stamps[1:]):
                if b <= a:
                    wit["dials"] = [d for d in res.get("dials", []) if d["port"] == port][:12]
                    _viol(m, "C08:%s:rejected-peer-dialled-again-without-asking-tracker" % tag, "peer %s was dialled again after its handshake (%s wrong) had been rejected, with no announce request in between (announce requests seen at its dials: %s)" % (port, badports[port], stamps[:12]), wit)
                    return
    if cid == "C04":
        _count(m, "%s_runs_with_torrent_elsewhere" % tag.replace("-", "_"))
        m["sets"].setdefault("torrent_locations", set()).add(sc.get("torrent_rel"))
        if res.get("outside_start_dir"):
            wit["scenario"]["torrent_rel"] = sc.get("torrent_rel")
            wit["scenario"]["hostile_name"] = sc.get("hostile_name")
            _viol(m, "C04:%s:written-outside-start-directory" % tag, "started in cwd/ with `get %s`; afterwards these files exist outside the start directory: %s" % (sc.get("torrent_rel"), res["outside_start_dir"]), wit)
            return
        if sc.get("hostile_name"):
            _count(m, "%s_hostile_name_runs" % tag.replace("-", "_"))
            if res.get("panics") or v == "client-died":
                m["inconclusive"].append("%s: hostile name %r: %s %s" % (tag, sc["hostile_name"], v, res.get("panics")))
            return
    if cid == "C20" and sc.get("family") == "mute_block":
        _count(m, "%s_mute_block_runs" % tag.replace("-", "_"))
        if v == "complete":
            _count(m, "%s_seeder_admitted_after_silent_connections_were_dropped" % tag.replace("-", "_"))
            m["counters"]["max:%s_mute_block_completed_after_s" % tag.replace("-", "_")] = max(m["counters"].get("max:%s_mute_block_completed_after_s" % tag.replace("-", "_"), 0), int(res.get("elapsed_s", 0)))
        elif res.get("elapsed_s", 0) >= 420 and v in ("timeout", "stalled"):
            _viol(m, "C20:%s:silent-connections-never-released" % tag, "four connections that never sent a byte were accepted at the start; %d s later a seeder that retries every 10 s is still turned away: their table entries were never released" % int(res.get("elapsed_s", 0)), wit)
        else:
            m["inconclusive"].append("%s: mute_block %s %s" % (tag, v, str(res.get("detail"))[:120]))
        return
    if cid == "C20":
        bad = None
        comp = res.get("complete_at_s")
        for c in res.get("closed_by_client", []):
            if 1 <= c.get("served_blocks", 0) < c.get("owed_blocks", 0) and c.get("s_since_our_last_message", 999) < 100 and (comp is None or c["at_s"] < comp - 3):
                bad = ("C20:%s:live-connection-closed" % tag, "peer %s (sole holder of its pieces) had served %d of %d blocks, its last one %.1f s earlier, when the client hung up at t=%.1f s (download %s)" % (c["port"], c["served_blocks"], c["owed_blocks"], c["s_since_our_last_message"], c["at_s"], "complete at %.1f s" % comp if comp else "never completed"))
        for l in res.get("conn_life", []):
            if l.get("lived_s", 0) >= 135:
                _count(m, "%s_connections_older_than_one_interval" % tag.replace("-", "_"))
                if not any(105 <= t <= 135 for t in l.get("keepalives_at_s", [])):
                    bad = bad or ("C20:%s:keepalive-emission" % tag, "connection to %s lived %.0f s; keep-alives from the client at %s" % (l["port"], l["lived_s"], l.get("keepalives_at_s")))
        for h in res.get("hostile", []):
            if h.get("kind") == "silent" and not h.get("error"):
                _count(m, "%s_silent_connections_judged" % tag.replace("-", "_"))
                ca = h.get("closed_after_s")
                if ca is None or ca > 366:
                    bad = bad or ("C20:%s:silent-connection-not-closed" % tag, "silent peer %s: closed after %s s (waited %s s)" % (h["port"], ca, h.get("waited_s")))
                ka = h.get("keepalives_from_client_at_s", [])
                life = ca if ca is not None else 380
                for tick in (120, 240):
                    if life > tick + 15 and not any(tick - 15 <= t <= tick + 15 for t in ka):
                        bad = bad or ("C20:%s:keepalive-emission" % tag, "silent peer %s: connection lived %.0f s, keep-alives from the client at %s" % (h["port"], life, ka))
        if bad:
            _viol(m, bad[0], bad[1], wit)
            return
        _count(m, "%s_live_slow_connections_judged" % tag.replace("-", "_"), len(res.get("conn_life", [])))
    if cid == "C06" and res.get("panics"):
        _viol(m, "C06:%s:panic-in-client" % tag, "a task of the client panicked: %s" % res["panics"][:2], wit)
        return
    if cid == "C06" and v in ("complete", "stalled", "timeout"):
        bad = None
        for h in res.get("hostile", []):
            _count(m, "%s_hostile_connections" % tag.replace("-", "_"))
            if h.get("expect_close") and h.get("done") and not h.get("error"):
                if h.get("closed_after_s") is None and h.get("closed_early_at_step") is None:
                    bad = h
                else:
                    _count(m, "%s_malformed_frame_terminated" % tag.replace("-", "_"))
                    m["sets"].setdefault("malformed_kinds_terminated", set()).add(h.get("kind"))
        if bad:
            wit["hostile"] = bad
            _viol(m, "C06:%s:malformed-frame-not-terminated:%s" % (tag, bad.get("kind")), "peer %s sent a %s frame after a legal prefix; the client kept the connection open for %s s" % (bad.get("port"), bad.get("kind"), bad.get("waited_s")), wit)
            return
        rss = res.get("peak_rss_kb", 0)
        if rss:
            m["counters"]["max:%s_peak_rss_kb" % tag.replace("-", "_")] = max(m["counters"].get("max:%s_peak_rss_kb" % tag.replace("-", "_"), 0), rss)
        if not asan and rss > 200_000:
            _viol(m, "C06:%s:unbounded-buffering" % tag, "peak resident set of the client %d kB with peers sending at most a few hundred kB" % rss, wit)
            return
    if cid == "C19" and any(h.get("after_s", 0) > 5 for h in res.get("handshake_reply_s", [])):
        slow = [h for h in res["handshake_reply_s"] if h.get("after_s", 0) > 5][0]
        _viol(m, "C19:%s:not-serving-while-tracker-fails" % tag, "a peer connected in at t=%.1f s (good tracker replies so far: %d); the client answered its handshake only %.1f s later" % (slow["at_s"], slow["good_replies_then"], slow["after_s"]), wit)
        return
    if v == "complete":
        if res.get("unexpected_files"):
            _viol(m, "%s:%s:unexpected-output" % (cid, tag), "unexpected files %s" % res["unexpected_files"], wit)
            return
        if res.get("handshakes_bad"):
            _viol(m, "%s:%s:bad-handshake-from-client" % (cid, tag), "client handshake with wrong protocol string/info-hash", wit)
            return
        _count(m, "%s_completed_identical" % tag.replace("-", "_"))
        shapes.add(hashlib.sha1(json.dumps(desc, sort_keys=True).encode()).hexdigest()[:12])
        if sum(1 for s in m["samples"] if isinstance(s, dict) and s.get("engine") == tag) < 1:
            m["samples"].append({"engine": tag, "scenario": desc, "elapsed_s": res.get("elapsed_s"), "tracker_requests": res.get("tracker_requests"), "bytes_moved": res.get("bytes_moved")})
    elif v == "client-died":
        sig = "%s:%s:client-died" % (cid, tag)
        _viol(m, sig, "the rdest process ended: %s; %s" % (res.get("detail"), res.get("panics")), wit)
    elif v == "listed-peer-never-contacted":
        _viol(m, "%s:%s:listed-peer-never-contacted" % (cid, tag), res.get("detail", ""), wit)
    elif v == "stalled":
        _viol(m, "%s:%s:stalled" % (cid, tag), res.get("detail", ""), wit)
    else:
        m["inconclusive"].append("%s: %s %s" % (tag, v, str(res.get("detail"))[:200]))


def e2e(cid, tier, seed, jobs, scale, outdir, m, log, asan=False):
    """Real `rdest get` processes on real sockets, one network namespace each."""
    binary = build_binary(log, asan=asan)
    tag = "e2e-asan" if asan else "e2e"
    if binary is None:
        m["inconclusive"].append("%s: binary build failed" % tag)
        return
    netns = have_netns()
    n = {"C02": {"quick": 16, "thorough": 400}, "C01": {"quick": 8, "thorough": 200}, "C19": {"quick": 8, "thorough": 120}, "C06": {"quick": 24, "thorough": 400}, "C04": {"quick": 12, "thorough": 200}, "C20": {"quick": 6, "thorough": 24}, "C08": {"quick": 8, "thorough": 120}}[cid][tier]
    if asan:
        n = {"quick": 0, "thorough": 160 if cid == "C06" else 96}[tier]
    n = max(0, int(n * scale))
    if n == 0:
        return
    r = random.Random((seed << 8) ^ int(hashlib.sha1(cid.encode()).hexdigest()[:6], 16) ^ (77 if asan else 0))
    gen = GENS[cid]
    scs = [gen(r) for _ in range(n)]
    if cid == "C02" and not asan:
        scs += [gen_c02_dead_peers(r)] + [gen_c02_all_incoming(r) for _ in range(5)]
        if tier == "thorough":
            scs += [gen_c02_dead_peers(r) for _ in range(10)] + [gen_c02_all_incoming(r) for _ in range(20)]
    if cid == "C02" and not asan:
        scs += [gen_c02_incoming_churn(r), gen_c02_late_handshake(r), gen_c02_late_handshake(r), gen_c02_late_handshake(r)] + [gen_c02_same_address_twice(r) for _ in range(4)]
        scs += [dict(gen_c02(r), stdout_closed=True) for _ in range(2 if tier == "quick" else 20)]
        if tier == "thorough":
            scs += [gen_c02_incoming_churn(r) for _ in range(8)] + [gen_c02_late_handshake(r) for _ in range(24)] + [gen_c02_same_address_twice(r) for _ in range(40)]
    if cid == "C06":
        scs += [gen_c06_tiny_handshake(r) for _ in range(4 if tier == "quick" else 40)]
    if cid == "C01" and not asan:
        scs += [gen_c01_mislabel(r) for _ in range(4 if tier == "quick" else 60)]
    if cid == "C20" and not asan and tier == "thorough":
        scs += [gen_c20_mute_block(r) for _ in range(4)]
        scs += [gen_c20(r, long=True) for _ in range(10)] + [gen_c20(r, silent=True) for _ in range(8)]
    if cid == "C19" and not asan:
        # longer runs of failures: the real HTTP client's retry loop must keep going
        scs += [gen_c19(r, 6), gen_c19(r, 9)]
        if tier == "thorough":
            scs += [gen_c19(r, 70), gen_c19(r, 66), gen_c19(r, 17), gen_c19(r, 33)]
    if asan:
        for sc in scs:
            sc["env"] = {"ASAN_OPTIONS": "halt_on_error=1:abort_on_error=1:detect_leaks=0"}
            sc["timeout_s"] = sc.get("timeout_s", 90) * 2
    root = os.path.join(os.environ.get("VERIF_SCRATCH", "/dev/shm" if os.path.isdir("/dev/shm") else "/tmp"), "vh-%s-%s-%d" % (tag, cid, os.getpid()))
    os.makedirs(root, exist_ok=True)
    t0 = time.time()
    workers = jobs if netns else 1  # port 6881 is a constant: without namespaces runs are serialised
    with ThreadPoolExecutor(max_workers=workers) as ex:
        results = list(ex.map(lambda a: run_cell(binary, a[1], a[0], root, netns), enumerate(scs)))
    shutil.rmtree(root, ignore_errors=True)
    shapes = set()
    for sc, res in zip(scs, results):
        _judge_cell(cid, tag, asan, sc, res, m, shapes)
    m["distinct"] = m.get("distinct", 0) + len(shapes)
    m["sets"].setdefault("engines", set()).add("%s (%d real-process runs, network namespaces: %s, %.0fs)" % (tag, len(scs), netns, time.time() - t0))
    need = n * 0.5
    if not asan:
        m["minimums"]["e2e_completed_identical"] = int(need)
        m["counters"].setdefault("e2e_completed_identical", 0)


def e2e_asan(cid, tier, seed, jobs, scale, outdir, m, log):
    e2e(cid, tier, seed, jobs, scale, outdir, m, log, asan=True)


# ---------------------------------------------------------------------------------------------
# Miri: the same harness binary, interpreted, at strongly reduced counts

MIRI_PLAN = {
    # check: (parts, scale) — sized so that one shard interprets a few dozen cases / 1-3 scenarios
    "C01": ("", 0.002), "C02": ("", 0.003), "C03": ("random", 0.05), "C05": ("", 0.001), "C06": ("decoder", 0.002),
    "C07": ("", 0.0002), "C08": ("", 0.0015), "C09": ("", 0.006), "C10": ("", 0.003), "C11": ("", 0.006),
    "C12": ("", 0.0015), "C13": ("random", 0.001), "C14": ("direct", 0.0006), "C15": ("", 0.0005),
    "C16": ("mutations,extremes", 0.002), "C17": ("docs,totality", 0.0001), "C19": ("replies", 0.001), "C20": ("", 0.002),
}


def miri(cid, tier, seed, jobs, scale, outdir, m, log):
    """Runs the check's workers under `cargo +nightly miri run` (UB / data-race / invalid-free
    detector for everything the workload reaches, incl. bytes/tokio internals). Unsupported
    operations and timeouts are inconclusive; an 'Undefined Behavior' diagnosis is a violation of
    the no-crash clause of the property whose workload was running."""
    if cid not in MIRI_PLAN or scale < 0.5:
        return
    parts, mscale = MIRI_PLAN[cid]
    harness = os.environ.get("VERIF_HARNESS_DIR", os.path.join(VERIF, "harness"))
    env = dict(os.environ, CARGO_NET_OFFLINE="true")
    shards = 8
    mdir = os.path.join(outdir, "miri")
    shutil.rmtree(mdir, ignore_errors=True)
    os.makedirs(mdir)
    t0 = time.time()
    # warm-up build (serialised by cargo's lock anyway)
    env0 = dict(env, MIRIFLAGS="-Zmiri-disable-isolation -Zmiri-ignore-leaks")
    w = subprocess.run(["cargo", "+nightly", "miri", "run", "--offline", "--", "merge-hashes"], cwd=harness, env=env0, stdout=subprocess.PIPE, stderr=subprocess.PIPE, text=True)
    if w.returncode != 0:
        m["inconclusive"].append("miri: cannot build/run the harness under Miri: %s" % w.stderr[-300:])
        return
    procs = []
    for i in range(shards):
        e = dict(env, MIRIFLAGS="-Zmiri-disable-isolation -Zmiri-ignore-leaks -Zmiri-seed=%d" % (seed * 100 + i))
        cmd = ["cargo", "+nightly", "miri", "run", "--offline", "--", "run", cid, "--tier", "quick", "--seed", str(seed + 7919), "--shard", "%d/%d" % (i, shards), "--out", mdir, "--scale", str(mscale)]
        if parts:
            cmd += ["--parts", parts]
        lf = open(os.path.join(mdir, "miri-%d.log" % i), "w")
        procs.append((i, subprocess.Popen(cmd, cwd=harness, env=e, stdout=lf, stderr=subprocess.STDOUT), lf))
    deadline = time.time() + 900
    for i, p, lf in procs:
        try:
            rc = p.wait(timeout=max(1, deadline - time.time()))
        except subprocess.TimeoutExpired:
            p.kill()
            p.wait()
            rc = "watchdog"
        lf.close()
        text = open(os.path.join(mdir, "miri-%d.log" % i), errors="replace").read()
        if rc == 0:
            continue
        if "Undefined Behavior" in text or "data race" in text.lower():
            k = text.find("Undefined Behavior")
            excerpt = text[max(0, k - 200):k + 1500]
            in_rdest = "/repo/src/" in excerpt
            _viol(m, "%s:miri:undefined-behaviour%s" % (cid, "" if in_rdest else ":third-party-frames-only"), "Miri diagnosed undefined behaviour while running the %s workload (shard %d)" % (cid, i), {"engine": "miri", "excerpt": excerpt})
        else:
            m["inconclusive"].append("miri shard %d ended with %s: %s" % (i, rc, text[-300:].replace("\n", " ")))
    # merge what the interpreted workers observed
    n_eval = 0
    for i in range(shards):
        f = os.path.join(mdir, "shard-%d.json" % i)
        if not os.path.exists(f):
            continue
        d = json.load(open(f))
        n_eval += d["evaluations"]
        m["evaluations"] += d["evaluations"]
        for v in d["violations"]:
            v["witness"] = {"engine": "miri", "witness": v["witness"]}
            _viol(m, v["signature"], v["what"], v["witness"])
        m["inconclusive"] += ["miri: " + x for x in d["inconclusive"]]
    _count(m, "miri_evaluations", n_eval)
    m["sets"].setdefault("engines", set()).add("miri (%d interpreted evaluations in %d shards, %.0fs)" % (n_eval, shards, time.time() - t0))


def replay_e2e(cid, witness, sig, log=print, attempts=8):
    """Run the recorded real-process scenario again `attempts` times; how often does `sig` recur?"""
    sc = (witness or {}).get("scenario_full")
    tag = (witness or {}).get("engine", "e2e")
    if not sc:
        return None
    asan = tag == "e2e-asan"
    binary = build_binary(log, asan=asan)
    if binary is None:
        return None
    netns = have_netns()
    root = os.path.join(os.environ.get("VERIF_SCRATCH", "/dev/shm" if os.path.isdir("/dev/shm") else "/tmp"), "vh-replay-%d" % os.getpid())
    os.makedirs(root, exist_ok=True)
    with ThreadPoolExecutor(max_workers=attempts if netns else 1) as ex:
        results = list(ex.map(lambda k: run_cell(binary, sc, k, root, netns), range(attempts)))
    shutil.rmtree(root, ignore_errors=True)
    hits = 0
    for res in results:
        m = {"evaluations": 0, "counters": {}, "samples": [], "violations": [], "inconclusive": [], "sets": {}, "minimums": {}}
        _judge_cell(cid, tag, asan, sc, res, m, set())
        if any(v["signature"] == sig for v in m["violations"]):
            hits += 1
    return hits, attempts
